#!/bin/bash
# seeded changes against their own check and the neighbouring checks (3 at a time);
# result in /tmp/mx/matrix.txt; summarised into seeded/RESULTS.md by tools/matrix_report.py
cd /verif
CORE="C01 C02 C03 C04 C05 C06 C07 C08 C19 C15"
run() {
  s=$1; own=${s%-*}
  case " $CORE " in
    *" $own "*) tools/matrix.sh $s $CORE ;;
    *) tools/matrix.sh $s $own C09 C18 ;;
  esac
}
export -f run
ls seeded | grep -E '^C[0-9]+-m[0-9]+$' | xargs -P 3 -I{} bash -c 'run {}' > /tmp/mx/matrix.txt 2>&1
echo done >> /tmp/mx/matrix.txt
