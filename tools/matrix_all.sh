#!/bin/bash
# every seeded change against every registered check (3 at a time); result table in /tmp/mx/matrix.txt
cd /verif
PROPS=$(python3 -c "import json;print(' '.join(c['property_id'] for c in json.load(open('MANIFEST.json'))['checks']))")
ls seeded | grep -E '^C[0-9]+-m[0-9]+$' | xargs -P 3 -I{} tools/matrix.sh {} $PROPS > /tmp/mx/matrix.txt 2>&1
echo done >> /tmp/mx/matrix.txt
