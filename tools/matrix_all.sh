#!/bin/bash
# every seeded change against the check of its own property (+ the checks of neighbouring properties where
# the change contradicts those as directly); 4 at a time; result in /tmp/mx/matrix.txt, summarised into
# seeded/RESULTS.md by tools/matrix_report.py
cd /verif
run() {
  s=$1; own=${s%-*}
  grep -q '"neutralised"' seeded/$s/meta.json && return 0
  extra=""
  case $s in
    C01-m4) extra="C04" ;;
    C04-m3|C19-m4) extra="C20 C19" ;;
    C14-m4|C19-m3|C06-m1) extra="C06 C19 C14" ;;
    C18-m4|C09-m3) extra="C09 C18 C16" ;;
    C18-m3) extra="C13" ;;
    C09-m4) extra="C03" ;;
    C06-m4|C15-m1) extra="C15 C06" ;;
    C13-m3|C05-m1) extra="C05 C13" ;;
    C13-m4|C09-m2) extra="C09 C13" ;;
    C12-m4) extra="C18" ;;
    C04-m4|C16-m4) extra="C16 C04" ;;
    C02-m4|C07-m3) extra="C02 C07" ;;
    C02-m3|C07-m4) extra="C02 C07 C08" ;;
    C10-m2) extra="C09" ;;
    C01-m5) extra="C02 C07" ;;
    C01-m6) extra="C15 C06 C04" ;;
    C02-m5|C07-m6|C08-m5) extra="C02 C07 C08" ;;
    C02-m6|C08-m6) extra="C02 C05 C08" ;;
    C05-m5) extra="C02" ;;
    C05-m6) extra="C09" ;;
    C09-m5) extra="C18" ;;
    C10-m5) extra="C09" ;;
    C11-m6) extra="C10" ;;
    C12-m6) extra="C18" ;;
    C14-m6) extra="C03" ;;
    C15-m5) extra="C18" ;;
    C18-m5) extra="C03 C19" ;;
    C18-m6) extra="C15" ;;
    C19-m6) extra="C06" ;;
    C01-m8|C07-m8) extra="C01 C07" ;;
    C04-m7) extra="C16" ;;
    C04-m8|C06-m8) extra="C06 C04 C15 C19" ;;
    C09-m8) extra="C11" ;;
    C10-m7) extra="C05 C09" ;;
    C11-m7) extra="C10" ;;
    C12-m7|C12-m8) extra="C18" ;;
    C14-m7) extra="C12" ;;
    C14-m8) extra="C13 C09" ;;
    C15-m8) extra="C18" ;;
    C17-m8) extra="C18" ;;
    C18-m7) extra="C16 C15" ;;
    C19-m8) extra="C06" ;;
    C02-m9) extra="C16" ;;
    C05-m9) extra="C20" ;;
    C06-m9) extra="C15 C01" ;;
    C09-m10) extra="C12 C18" ;;
    C12-m10|C16-m10) extra="C18" ;;
    C14-m10) extra="C05 C06" ;;
    C19-m10) extra="C06 C15" ;;
    C10-m10|C16-m9) extra="C09" ;;
    C11-m9) extra="C09 C10" ;;
    C01-m12) extra="C03" ;;
    C03-m11|C19-m11) extra="C19 C06" ;;
    C05-m11) extra="C02 C13" ;;
    C07-m12) extra="C01" ;;
    C09-m12) extra="C11" ;;
    C13-m11|C14-m11) extra="C13 C14" ;;
    C14-m12) extra="C12 C18" ;;
    C15-m11) extra="C16" ;;
    C19-m12) extra="C05" ;;
    C20-m12) extra="C16" ;;
    C01-m13) extra="C07 C08" ;;
    C02-m13) extra="C07" ;;
    C02-m14|C07-m13) extra="C02 C07" ;;
    C03-m14) extra="C16" ;;
    C05-m13|C11-m13) extra="C10 C09" ;;
    C05-m14) extra="C13" ;;
    C06-m13) extra="C05 C19" ;;
    C06-m14) extra="C15 C07" ;;
    C07-m14) extra="C08 C15" ;;
    C10-m14) extra="C09" ;;
    C11-m14) extra="C09" ;;
    C12-m13|C12-m14) extra="C18" ;;
    C13-m13) extra="C18 C09" ;;
    C13-m14) extra="C11 C05" ;;
    C14-m13) extra="C02" ;;
    C14-m14) extra="C12 C18" ;;
    C16-m14) extra="C15" ;;
    C18-m13) extra="C13" ;;
    C18-m14) extra="C16" ;;
  esac
  [ -n "${MATRIX_OWN:-}" ] && extra=""   # own check only
  grep -q "^$s check=$own " /tmp/mx/matrix.txt 2>/dev/null && [ -n "${MATRIX_RESUME:-}" ] && return 0
  tools/matrix.sh $s $(echo $own $extra | tr ' ' '\n' | awk '!seen[$0]++' | tr '\n' ' ')
}
export -f run
# MATRIX_FILTER (a regular expression on the names) runs a part only and appends to the result
F=${MATRIX_FILTER:-.}
[ "$F" = "." ] && [ -z "${MATRIX_RESUME:-}" ] && rm -f /tmp/mx/matrix*.txt
ls seeded | grep -E '^C[0-9]+-m[0-9]+$' | grep -E -e "$F" | xargs -P ${MATRIX_PAR:-4} -I{} bash -c 'run {}' >> /tmp/mx/matrix.txt 2>&1
echo done >> /tmp/mx/matrix.txt
