#!/bin/bash
# every seeded change against the check of its own property (+ the checks of neighbouring properties where
# the change contradicts those as directly); 4 at a time; result in /tmp/mx/matrix.txt, summarised into
# seeded/RESULTS.md by tools/matrix_report.py
cd /verif
run() {
  s=$1; own=${s%-*}
  extra=""
  case $s in
    C01-m4) extra="C04" ;;
    C04-m3|C19-m4) extra="C20 C19" ;;
    C14-m4|C19-m3|C06-m1) extra="C06 C19 C14" ;;
    C18-m4|C09-m3) extra="C09 C18 C16" ;;
    C18-m3) extra="C13" ;;
    C09-m4) extra="C03" ;;
    C06-m4|C15-m1) extra="C15 C06" ;;
    C13-m3|C05-m1) extra="C05 C13" ;;
    C13-m4|C09-m2) extra="C09 C13" ;;
    C12-m4) extra="C18" ;;
    C04-m4|C16-m4) extra="C16 C04" ;;
    C02-m4|C07-m3) extra="C02 C07" ;;
    C02-m3|C07-m4) extra="C02 C07 C08" ;;
    C10-m2) extra="C09" ;;
  esac
  tools/matrix.sh $s $(echo $own $extra | tr ' ' '\n' | awk '!seen[$0]++' | tr '\n' ' ')
}
export -f run
rm -f /tmp/mx/matrix*.txt
ls seeded | grep -E '^C[0-9]+-m[0-9]+$' | xargs -P 4 -I{} bash -c 'run {}' > /tmp/mx/matrix.txt 2>&1
echo done >> /tmp/mx/matrix.txt
