#!/bin/bash
# matrix.sh <seeded-name> <PROP>... : run checks against one seeded change WITHOUT touching /repo:
# a scratch worktree of /repo HEAD gets the patch, the harness is built against it (VERIF_REPO).
# Output: one line per check. Used to fill seeded/RESULTS.md.
set -u
S=$1; shift
WT=/tmp/mx/$S
rm -rf $WT; git -C /repo worktree prune; mkdir -p /tmp/mx
git -C /repo worktree add -q --detach $WT HEAD || exit 2
git -C $WT apply /verif/seeded/$S/patch.diff || { echo "$S patch does not apply"; git -C /repo worktree remove --force $WT; exit 2; }
cd /verif
for p in "$@"; do
  mkdir -p /tmp/mx/out/$S
  out=$(VERIF_REPO=$WT VERIF_EVIDENCE_DIR=/tmp/mx/out/$S ./check $p --tier ${TIER:-quick} 2>&1); rc=$?
  echo "$S check=$p rc=$rc $(echo "$out" | grep -m1 -E 'VIOLATION|MACHINERY' | cut -c1-160)"
done
git -C /repo worktree remove --force $WT
