#!/bin/bash
# seedverify.sh <PROP> <mN> : confirm a sub-agent's mutant in a scratch worktree of /repo HEAD:
#  patch applies, builds, pinned suite passes with it, demo fails with it and passes without it.
# On success copies it to /verif/seeded/<PROP>-<mN>/ (patch.diff, demo, meta.json + verify.log).
set -u
P=$1; M=$2
SRC=${MUTBASE:-/tmp/mut}/$P/out/$M
WT=/tmp/sv/$P-$M
export GOFLAGS=-mod=mod GOPROXY=off
rm -rf $WT; git -C /repo worktree prune; git -C /repo worktree add -q --detach $WT HEAD || exit 2
LOG=$(mktemp)
fail() { echo "SEEDVERIFY $P-$M FAIL: $1" | tee -a $LOG; cp $LOG /tmp/sv/$P-$M.log; git -C /repo worktree remove --force $WT; exit 1; }
cd $WT
DEMO=$(cat $SRC/DEMO_PATH | tr -d '\n ')
DEMOPKG=./$(dirname $DEMO)
TESTNAME=TestVerifDemo_${P}_${M}
cp $SRC/$(basename $DEMO) $DEMO
echo "== demo without mutant" >>$LOG
go test -vet=off -count=1 -run "^$TESTNAME\$" $DEMOPKG >>$LOG 2>&1 || fail "demo fails on the unmodified tree"
git apply $SRC/patch.diff 2>>$LOG || fail "patch does not apply to HEAD"
go build ./... >>$LOG 2>&1 || fail "does not build"
echo "== demo with mutant" >>$LOG
if go test -vet=off -count=1 -run "^$TESTNAME\$" $DEMOPKG >>$LOG 2>&1; then fail "demo passes with the mutant"; fi
rm -f $DEMO
echo "== suite with mutant" >>$LOG
go test -vet=off -count=1 ./internal/... ./e2e/... >>$LOG 2>&1 || fail "pinned suite fails with the mutant"
D=/verif/seeded/$P-$M
mkdir -p $D
cp $SRC/patch.diff $SRC/$(basename $DEMO) $SRC/DEMO_PATH $D/
python3 - "$SRC/meta.json" "$D/meta.json" "$P" "$M" <<'PY'
import json,sys
src,dst,p,m=sys.argv[1:]
try: meta=json.load(open(src))
except Exception as e: meta={"note":"agent meta unreadable: %s"%e}
meta["property"]=p; meta["mutant"]=m
meta["confirmed"]={"by":"tools/seedverify.sh in a scratch worktree of /repo HEAD","steps":["demo passes on the unmodified tree","patch applies and builds","demo fails with the patch","go test -vet=off -count=1 ./internal/... ./e2e/... passes with the patch"]}
json.dump(meta,open(dst,"w"),indent=1)
PY
echo "SEEDVERIFY $P-$M OK" | tee -a $LOG
cp $LOG $D/verify.log
cd /; git -C /repo worktree remove --force $WT
