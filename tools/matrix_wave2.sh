#!/bin/bash
# wave-2 seeded changes (m3, m4) against their own check (+ the check of a neighbouring property where the
# change contradicts that one more directly); result in /tmp/mx/matrix2.txt
cd /verif
run() {
  s=$1; own=${s%-*}
  extra=""
  case $s in
    C04-m3|C19-m4) extra="C20" ;;
    C14-m4) extra="C06 C19" ;;
    C18-m4|C18-m3) extra="C09 C13" ;;
    C09-m3|C09-m4) extra="C18 C03" ;;
    C06-m4) extra="C15" ;;
    C13-m3) extra="C05" ;;
    C13-m4) extra="C09" ;;
  esac
  tools/matrix.sh $s $own $extra
}
export -f run
ls seeded | grep -E '^C[0-9]+-m[34]$' | xargs -P 4 -I{} bash -c 'run {}' > /tmp/mx/matrix2.txt 2>&1
echo done >> /tmp/mx/matrix2.txt
