#!/bin/bash
# seedrun.sh <seeded-dir-name> <PROP>... : apply a seeded change to /repo, run the named checks, undo.
set -u
S=/verif/seeded/$1; shift
cd /repo && git diff --quiet || { echo "/repo is dirty"; exit 2; }
git -C /repo apply $S/patch.diff || { echo "patch does not apply"; exit 2; }
trap 'git -C /repo checkout -- . ; git -C /repo clean -fdq' EXIT
cd /verif
for p in "$@"; do
  out=$(./check $p --tier ${TIER:-quick} 2>&1); rc=$?
  echo "$(basename $S) check=$p rc=$rc $(echo "$out" | grep -m1 -E 'VIOLATION|MACHINERY' | cut -c1-200)"
done
