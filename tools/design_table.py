#!/usr/bin/env python3
"""Regenerates the per-property table of DESIGN.md (between the TABLE6 markers) from the evidence files:
what each registered check actually ran in its last (quick) run."""
import json, re, os
ROOT = "/verif"
findings = json.load(open(ROOT + "/known_findings.json"))["findings"]
rows = ["| id | level | TLC configurations (exhaustive) | walked slices (Engine A / G) | validated drivers (Engine B) | findings on the pinned tree |", "|---|---|---|---|---|---|"]
for i in range(1, 21):
    pid = "C%02d" % i
    ev = json.load(open("%s/evidence/%s.json" % (ROOT, pid)))
    cov = ev["coverage"]
    mcs, walks, traces = [], [], []
    for r in cov.get("tlc_runs", []):
        c = r["cfg"].replace(".cfg", "")
        if c.startswith("MC_") and c not in mcs:
            mcs.append(c)
    for w in cov.get("walks", []):
        fam = w.get("family", "")
        eng = w.get("engine", "")
        if eng.startswith("trace") or eng.startswith("driver") or eng.startswith("real-time"):
            tag = fam + {"trace-validation": "", "driver (crash/hang oracle only)": " (alive)", "real-time driver under the race detector": " (race)"}.get(eng, "")
            if tag not in traces:
                traces.append(tag)
        else:
            f = re.sub(r"-sim$|-v\d$", "", fam)
            if f not in walks:
                walks.append(f)
    fnd = []
    for f in findings:
        if f["property"] == pid or pid in f.get("also", []):
            fnd.append("%s %s" % (f["id"], f["status"]))
    rows.append("| %s | %s | %s | %s | %s | %s |" % (pid, ev["level"], ", ".join(m[3:] for m in mcs) or "–", ", ".join(walks) or "–", ", ".join(traces) or "–", ", ".join(fnd) or "–"))
text = "\n".join(rows)
p = ROOT + "/DESIGN.md"
s = open(p).read()
a, b = s.index("<!-- TABLE6 BEGIN -->"), s.index("<!-- TABLE6 END -->")
s = s[:a] + "<!-- TABLE6 BEGIN -->\n" + text + "\n" + s[b:]
open(p, "w").write(s)
print(text)
