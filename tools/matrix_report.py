#!/usr/bin/env python3
"""Turns /tmp/mx/matrix*.txt (output of tools/matrix_all.sh) into seeded/RESULTS.md."""
import re, json, glob, os, sys, collections
rows = collections.defaultdict(dict)
for f in sorted(glob.glob('/tmp/mx/matrix*.txt')):
    for l in open(f):
        m = re.match(r'(C\d+-m\d+) check=(C\d+) rc=(\d+)', l)
        if m:
            rows[m.group(1)][m.group(2)] = int(m.group(3))
checks = sorted({c for r in rows.values() for c in r})
out = ["# Seeded changes against the checks", "",
       "Each row is one confirmed property-breaking change (seeded/<name>/: patch.diff, demonstration, meta.json); each column a registered check run in its quick tier",
       "against a scratch copy of pion/turn with the change applied (tools/matrix.sh; /repo is never touched).",
       "`X` = the check exits 1 with a VIOLATION line, `.` = exits 0, `2` = exits 2 (the machinery could not proceed, e.g. the change crashes or wedges the server in a",
       "check that does not own crashes), blank = not run. The column of the change's own property is marked with brackets.", "",
       "| change | needs | " + " | ".join(checks) + " |", "|---|---|" + "---|" * len(checks)]
own_caught = own_total = 0
neutral = []
for name in sorted(rows):
    own = name.split('-')[0]
    try:
        meta = json.load(open('/verif/seeded/%s/meta.json' % name))
        needs = meta.get('needs', '')
        if meta.get('neutralised'):
            neutral.append(name)
            continue
    except Exception:
        needs = ''
    needs = re.sub(r'\s+', ' ', str(needs))[:110].replace('|', '/')
    cells = []
    for c in checks:
        rc = rows[name].get(c)
        s = '' if rc is None else {0: '.', 1: 'X', 2: '2'}.get(rc, str(rc))
        if c == own and s:
            s = '[' + s + ']'
        cells.append(s)
    if own in rows[name]:
        own_total += 1
        own_caught += rows[name][own] == 1
    out.append("| %s | %s | %s |" % (name, needs, " | ".join(cells)))
out += ["", "Own-property check catches the change: %d of %d." % (own_caught, own_total), ""]
if neutral:
    out += ["Not listed: %s -- neutralised by a later `fix:` commit in /repo (see their meta.json): they no longer break the property." % ", ".join(neutral), ""]
open('/verif/seeded/RESULTS.md', 'w').write("\n".join(out))
print("own-property caught %d/%d; rows %d" % (own_caught, own_total, len(rows)))
