package verifx

import (
	"bytes"
	"crypto/sha256"
	"encoding/binary"
	"errors"
	"fmt"
	"net"
	"sort"
	"strings"
	"sync"
	"time"

	"github.com/pion/stun/v3"
	turn "github.com/pion/turn/v5"
	"github.com/pion/turn/v5/internal/allocation"
	"github.com/pion/turn/v5/internal/proto"
)

// tcpSys binds spec/TurnTCP.tla to a real turn.Server with a stream listener: control
// connections, relayed listeners, peer connections and client data connections are in-memory
// streams.
type tcpSys struct {
	missingOwners []string // owners of the connections the last state check found missing
	meta          Meta
	seed          int64
	net           *MemNet
	srv           *turn.Server
	lis           *MemListener
	laddr         *net.TCPAddr
	step          int
	nonce         string

	caddr   map[string]*net.TCPAddr
	ctrl    map[string]*MemStream
	peerIP  map[string]net.IP
	peerLis map[string]*MemListener // "A/1"
	relay   map[string]*net.TCPAddr // client -> relayed address
	relayL  map[string]*MemListener

	idOf    map[int]proto.ConnectionID // alias -> real id
	aliasOf map[proto.ConnectionID]int
	peerEnd map[int]*MemStream // alias -> the peer's end of the peer connection
	dataEnd map[int]*MemStream // alias -> the client's data connection (after a successful bind)
	lastDC  *MemStream
	nport   int
	curTxid [stun.TransactionIDSize]byte
	// ConnectSlow / DialDone: the outgoing dial of one Connect is parked on dialGate
	dialGate chan struct{}
	dialTxid [stun.TransactionIDSize]byte
	curPay   []byte
	gen      *tcpGen
	evMu     sync.Mutex
	events   []Event
}

type tcpGen struct {
	s    *tcpSys
	mu   sync.Mutex
	next int
}

func (g *tcpGen) Validate() error { return nil }
func (g *tcpGen) AllocatePacketConn(turn.AllocateListenerConfig) (net.PacketConn, net.Addr, error) {
	return nil, nil, errors.New("tcpGen: datagram relays are not part of this world")
}

func (g *tcpGen) AllocateListener(c turn.AllocateListenerConfig) (net.Listener, net.Addr, error) {
	g.mu.Lock()
	defer g.mu.Unlock()
	g.next++
	port := c.RequestedPort
	if port == 0 {
		port = 50000 + g.next
	}
	a := &net.TCPAddr{IP: net.IPv4(10, 0, 0, 1).To4(), Port: port}
	l, err := g.s.net.ListenTCP(a)
	if err != nil {
		return nil, nil, err
	}

	return l, a, nil
}

func (g *tcpGen) AllocateConn(c turn.AllocateConnConfig) (net.Conn, error) {
	la, _ := c.LocalAddr.(*net.TCPAddr)
	ra, _ := c.RemoteAddr.(*net.TCPAddr)
	if la == nil || ra == nil {
		return nil, errors.New("tcpGen: need TCP addresses")
	}

	if ch := g.s.dialGate; ch != nil {
		<-ch // ConnectSlow: the dial takes time (DialDone releases it)
	}

	return g.s.net.DialTCP(la, ra)
}

func newTCPSys(meta Meta, seed int64, _ any) (Sys, error) {
	s := &tcpSys{
		meta: meta, seed: seed, net: NewMemNet(), caddr: map[string]*net.TCPAddr{}, ctrl: map[string]*MemStream{},
		peerIP: map[string]net.IP{}, peerLis: map[string]*MemListener{}, relay: map[string]*net.TCPAddr{},
		relayL: map[string]*MemListener{}, idOf: map[int]proto.ConnectionID{}, aliasOf: map[proto.ConnectionID]int{},
		peerEnd: map[int]*MemStream{}, dataEnd: map[int]*MemStream{}, nport: 42000,
	}
	s.laddr = &net.TCPAddr{IP: net.IPv4(10, 0, 0, 1).To4(), Port: 3478}
	var err error
	if s.lis, err = s.net.ListenTCP(s.laddr); err != nil {
		return nil, err
	}
	for i, c := range meta.Clients {
		s.caddr[c] = &net.TCPAddr{IP: net.IPv4(10, 0, 0, 11).To4(), Port: 40001 + i}
	}
	ips := make([]string, 0, len(meta.Fam))
	for i := range meta.Fam {
		ips = append(ips, i)
	}
	sort.Strings(ips)
	for k, i := range ips {
		s.peerIP[i] = net.IPv4(10, 1, byte(k), byte(1+k)).To4()
	}
	listening := meta.Extra["Listening"]
	for _, i := range ips {
		for _, pp := range meta.PeerPorts {
			if strings.Contains(listening, fmt.Sprintf("<<\"%s\", %d>>", i, pp)) {
				l, err := s.net.ListenTCP(&net.TCPAddr{IP: s.peerIP[i], Port: 5000 + pp})
				if err != nil {
					return nil, err
				}
				s.peerLis[fmt.Sprintf("%s/%d", i, pp)] = l
			}
		}
	}
	denied := map[string]bool{}
	for _, d := range meta.Denied {
		denied[d[0]+"|"+d[1]] = true
	}
	s.gen = &tcpGen{s: s}
	users := map[string]bool{}
	for _, u := range meta.Users {
		users[u] = true
	}
	s.srv, err = turn.NewServer(turn.ServerConfig{
		Realm: realm, LoggerFactory: quietLoggerFactory{},
		AuthHandler: func(ra *turn.RequestAttributes) (string, []byte, bool) {
			if !users[ra.Username] {
				return "", nil, false
			}

			return ra.Username, turn.GenerateAuthKey(ra.Username, ra.Realm, "pw-"+ra.Username), true
		},
		AllocationLifetime: time.Duration(meta.DefaultLife) * time.Second,
		PermissionTimeout:  time.Duration(meta.PermTO) * time.Second,
		ListenerConfigs: []turn.ListenerConfig{{Listener: s.lis, RelayAddressGenerator: s.gen,
			PermissionHandler: func(ca net.Addr, ip net.IP) bool {
				return !denied[s.clientName(ca)+"|"+s.ipName(ip)]
			}}},
	})
	if err != nil {
		return nil, err
	}
	// control connections
	for _, c := range meta.Clients {
		st, err := s.net.DialTCP(s.caddr[c], s.laddr)
		if err != nil {
			return nil, err
		}
		s.ctrl[c] = st
	}

	return s, nil
}

func (s *tcpSys) clientName(a net.Addr) string {
	ta, _ := a.(*net.TCPAddr)
	for c, ca := range s.caddr {
		if ta != nil && ca.IP.Equal(ta.IP) && ca.Port == ta.Port {
			return c
		}
	}

	return "?" + a.String()
}

func (s *tcpSys) ipName(ip net.IP) string {
	for i, p := range s.peerIP {
		if p.Equal(ip) {
			return i
		}
	}

	return "?" + ip.String()
}

func (s *tcpSys) peerName(a net.Addr) []any {
	ta, _ := a.(*net.TCPAddr)
	if ta == nil {
		return []any{"?", 0}
	}

	return []any{s.ipName(ta.IP), ta.Port - 5000}
}

func (s *tcpSys) peerAddr(p []any) *net.TCPAddr {
	return &net.TCPAddr{IP: s.peerIP[p[0].(string)], Port: 5000 + toInt(p[1])}
}

func (s *tcpSys) Close() {
	if s.dialGate != nil {
		close(s.dialGate)
		s.dialGate = nil
	}
	_ = s.srv.Close()
	for _, c := range s.ctrl {
		_ = c.Close()
	}
	for _, l := range s.peerLis {
		_ = l.Close()
	}
	for _, e := range s.peerEnd {
		_ = e.Close()
	}
	for _, e := range s.dataEnd {
		_ = e.Close()
	}
	if s.lastDC != nil {
		_ = s.lastDC.Close()
	}
	s.net.mu.Lock()
	streams := append([]*MemStream{}, s.net.streams...)
	s.net.mu.Unlock()
	for _, st := range streams {
		_ = st.Close()
	}
}

// parseFrames splits what arrived on a stream into STUN messages.
func parseFrames(b []byte) ([]*stun.Message, []byte) {
	var out []*stun.Message
	for len(b) >= 20 && stun.IsMessage(b) {
		n := 20 + int(binary.BigEndian.Uint16(b[2:4]))
		if len(b) < n {
			break
		}
		m := &stun.Message{Raw: append([]byte{}, b[:n]...)}
		if m.Decode() != nil {
			break
		}
		out = append(out, m)
		b = b[n:]
	}

	return out, b
}

func (s *tcpSys) authed(u string, method stun.Method, attrs ...stun.Setter) []byte {
	h := sha256.Sum256([]byte(fmt.Sprintf("tcptx/%d/%d", s.seed, s.step)))
	copy(s.curTxid[:], h[:])
	st := []stun.Setter{txidSetter(s.curTxid), stun.NewType(method, stun.ClassRequest)}
	st = append(st, attrs...)
	st = append(st, stun.NewUsername(u), stun.NewRealm(realm), stun.NewNonce(s.nonce), stun.NewLongTermIntegrity(u, realm, "pw-"+u))

	return stun.MustBuild(st...).Raw
}

func (s *tcpSys) ensureNonce(wait func()) error {
	if s.nonce != "" {
		return nil
	}
	st, err := s.net.DialTCP(&net.TCPAddr{IP: net.IPv4(10, 9, 9, 9).To4(), Port: 9}, s.laddr)
	if err != nil {
		return err
	}
	defer st.Close() //nolint:errcheck
	m := stun.MustBuild(stun.TransactionID, stun.NewType(stun.MethodAllocate, stun.ClassRequest), proto.RequestedTransport{Protocol: proto.ProtoTCP})
	_, _ = st.Write(m.Raw)
	wait()
	ms, _ := parseFrames(st.Buffered())
	if len(ms) != 1 {
		return fmt.Errorf("nonce probe: %d answers", len(ms))
	}
	var n stun.Nonce
	if err := n.GetFrom(ms[0]); err != nil {
		return err
	}
	s.nonce = n.String()

	return nil
}

func (s *tcpSys) chunk(id string) []byte {
	h := sha256.Sum256([]byte(fmt.Sprintf("tcpchunk/%d/%d/%s", s.seed, s.step, id)))
	n := 5 + int(h[0])%60
	out := make([]byte, 0, n+32)
	for c := 0; len(out) < n; c++ {
		x := sha256.Sum256([]byte(fmt.Sprintf("tcpchunk/%d/%d/%s/%d", s.seed, s.step, id, c)))
		out = append(out, x[:]...)
	}

	return out[:n]
}

func (s *tcpSys) Do(a map[string]any, wait func()) ([]Obs, error) {
	s.step++
	time.Sleep(time.Microsecond)
	wait()
	if a["a"] != "ProbeAfterClose" && a["a"] != "ServerClose" {
		if err := s.ensureNonce(wait); err != nil {
			return nil, err
		}
	}
	c, _ := a["c"].(string)
	u, _ := a["u"].(string)
	var obs []Obs
	switch a["a"] {
	case "Advance":
		time.Sleep(time.Duration(toInt(a["d"])) * time.Second)
	case "Allocate":
		_, _ = s.ctrl[c].Write(s.authed(u, stun.MethodAllocate, proto.RequestedTransport{Protocol: proto.ProtoTCP}))
	case "CreatePermission":
		ips := a["ips"].([]any)
		pa := s.peerAddr([]any{ips[0], 1})
		_, _ = s.ctrl[c].Write(s.authed(u, stun.MethodCreatePermission, proto.PeerAddress{IP: pa.IP, Port: pa.Port}))
	case "Connect":
		pa := s.peerAddr(a["p"].([]any))
		_, _ = s.ctrl[c].Write(s.authed(u, stun.MethodConnect, proto.PeerAddress{IP: pa.IP, Port: pa.Port}))
	case "ConnectSlow":
		s.dialGate = make(chan struct{})
		pa := s.peerAddr(a["p"].([]any))
		_, _ = s.ctrl[c].Write(s.authed(u, stun.MethodConnect, proto.PeerAddress{IP: pa.IP, Port: pa.Port}))
		s.dialTxid = s.curTxid
	case "DialDone":
		if s.dialGate != nil {
			close(s.dialGate)
			s.dialGate = nil
		}
		s.curTxid = s.dialTxid // the answer that comes now belongs to the Connect of the ConnectSlow step
	case "PeerConnect":
		pa := s.peerAddr(a["p"].([]any))
		ra := s.relay[c]
		if ra == nil {
			obs = append(obs, Obs{"k": "peerrefused", "peer": a["p"]})

			break
		}
		st, err := s.net.DialTCP(pa, ra)
		if err != nil {
			obs = append(obs, Obs{"k": "peerrefused", "peer": a["p"]})

			break
		}
		wait()
		s.peerEnd[-s.step] = st // provisional: aliased when the ConnectionAttempt arrives
		if st.PeerClosed() {
			obs = append(obs, Obs{"k": "peerclosed", "peer": a["p"]})
			delete(s.peerEnd, -s.step)
			_ = st.Close()
		}
	case "ConnectionBind":
		s.nport++
		dc, err := s.net.DialTCP(&net.TCPAddr{IP: net.IPv4(10, 0, 0, 11).To4(), Port: s.nport}, s.laddr)
		if err != nil {
			return nil, err
		}
		if s.lastDC != nil {
			_ = s.lastDC.Close()
		}
		s.lastDC = dc
		id := proto.ConnectionID(0xdead0000 + uint32(s.step)) //nolint:gosec
		if al := toInt(a["id"]); al != 0 {
			if real, ok := s.idOf[al]; ok {
				id = real
			}
		}
		_, _ = dc.Write(s.authed(u, stun.MethodConnectionBind, id))
		wait()
		ms, rest := parseFrames(dc.Buffered())
		for _, m := range ms {
			o := Obs{"k": "bindresp", "cls": "err", "code": 0, "txok": m.TransactionID == s.curTxid}
			if m.Type.Class == stun.ClassSuccessResponse {
				o["cls"] = "ok"
				s.dataEnd[toInt(a["id"])] = dc
				s.lastDC = nil
			} else {
				var ec stun.ErrorCodeAttribute
				if ec.GetFrom(m) == nil {
					o["code"] = int(ec.Code)
				}
			}
			obs = append(obs, o)
		}
		if len(rest) > 0 {
			obs = append(obs, Obs{"k": "todata", "id": toInt(a["id"]), "raw": rest})
		}
	case "DataC2P":
		s.curPay = s.chunk("c2p")
		_, _ = s.dataEnd[toInt(a["id"])].Write(s.curPay)
	case "DataP2C":
		s.curPay = s.chunk("p2c" + fmt.Sprint(a["pay"]))
		if pe := s.peerEnd[toInt(a["id"])]; pe != nil {
			_, _ = pe.Write(s.curPay)
			if !s.isBound(toInt(a["id"])) {
				s.held(toInt(a["id"]), s.curPay)
			}
		}
	case "Duplex":
		// both directions carry 256 KiB at the same time while neither receiver reads (64 KiB windows):
		// the relay's two copy loops stall in the middle of a write and must not disturb each other
		id := toInt(a["id"])
		de, pe := s.dataEnd[id], s.peerEnd[id]
		if de == nil || pe == nil {
			return nil, fmt.Errorf("Duplex on connection %d without both ends", id)
		}
		big := func(tag string) []byte {
			out := make([]byte, 0, 256<<10)
			for c := 0; len(out) < 256<<10; c++ {
				x := sha256.Sum256([]byte(fmt.Sprintf("tcpbig/%d/%d/%s/%d", s.seed, s.step, tag, c)))
				out = append(out, x[:]...)
			}

			return out
		}
		c2p, p2c := big("c2p"), big("p2c")
		de.SetLimit(64 << 10)
		pe.SetLimit(64 << 10)
		var gotP, gotC []byte
		for off := 0; off < len(c2p); off += 32 << 10 { // interleaved submission, nobody reads yet
			_, _ = de.Write(c2p[off : off+32<<10])
			_, _ = pe.Write(p2c[off : off+32<<10])
			wait()
		}
		for i := 0; i < 64; i++ { // slow readers, a few KiB at a time
			bufP, bufC := make([]byte, 24<<10), make([]byte, 40<<10)
			_ = pe.SetReadDeadline(time.Now().Add(time.Millisecond))
			if n, _ := pe.Read(bufP); n > 0 {
				gotP = append(gotP, bufP[:n]...)
			}
			_ = de.SetReadDeadline(time.Now().Add(time.Millisecond))
			if n, _ := de.Read(bufC); n > 0 {
				gotC = append(gotC, bufC[:n]...)
			}
			wait()
		}
		_ = pe.SetReadDeadline(time.Time{})
		_ = de.SetReadDeadline(time.Time{})
		de.SetLimit(0)
		pe.SetLimit(0)
		wait()
		gotP = append(gotP, pe.Buffered()...)
		gotC = append(gotC, de.Buffered()...)
		obs = append(obs, Obs{"k": "duplex", "id": id, "c2p": bytes.Equal(gotP, c2p), "p2c": bytes.Equal(gotC, p2c), "nc2p": len(gotP), "np2c": len(gotC)})
	case "CloseData":
		id := toInt(a["id"])
		if a["side"] == "peer" {
			_ = s.peerEnd[id].Close()
		} else {
			_ = s.dataEnd[id].Close()
		}
	case "ServerClose":
		_ = s.srv.Close()
	case "ProbeAfterClose":
		// a control connection accepted before Server.Close tries to allocate on the closed server
		_, _ = s.ctrl[c].Write(s.authed(u, stun.MethodAllocate, proto.RequestedTransport{Protocol: proto.ProtoTCP}))
	case "ControlClose":
		_ = s.ctrl[c].Close()
		wait()
		// a new control connection from the same address for later steps
		st, err := s.net.DialTCP(s.caddr[c], s.laddr)
		if err != nil {
			return nil, err
		}
		s.ctrl[c] = st
	default:
		return nil, fmt.Errorf("unknown tcp action %v", a["a"])
	}
	wait()
	obs = append(obs, s.collect(a)...)

	return obs, nil
}

type heldT struct{ chunks [][]byte }

var heldMap = map[*tcpSys]map[int]*heldT{}

func (s *tcpSys) held(id int, b []byte) {
	if heldMap[s] == nil {
		heldMap[s] = map[int]*heldT{}
	}
	if heldMap[s][id] == nil {
		heldMap[s][id] = &heldT{}
	}
	heldMap[s][id].chunks = append(heldMap[s][id].chunks, b)
}

func (s *tcpSys) isBound(id int) bool { return s.dataEnd[id] != nil }

// collect gathers what every control connection, peer listener, peer connection and data
// connection observed since the last step.
func (s *tcpSys) collect(a map[string]any) []Obs {
	var obs []Obs
	cs := make([]string, 0, len(s.ctrl))
	for c := range s.ctrl {
		cs = append(cs, c)
	}
	sort.Strings(cs)
	for _, c := range cs {
		ms, rest := parseFrames(s.ctrl[c].Buffered())
		if len(rest) > 0 {
			obs = append(obs, Obs{"k": "junk", "to": c, "why": fmt.Sprintf("%d stray bytes on the control connection", len(rest))})
		}
		for _, m := range ms {
			if m.Type.Class == stun.ClassIndication {
				if m.Type.Method != stun.MethodConnectionAttempt {
					obs = append(obs, Obs{"k": "junk", "to": c, "why": m.Type.String()})

					continue
				}
				var pa proto.PeerAddress
				var cid proto.ConnectionID
				if pa.GetFrom(m) != nil || cid.GetFrom(m) != nil {
					obs = append(obs, Obs{"k": "junk", "to": c, "why": "bad ConnectionAttempt"})

					continue
				}
				alias := s.newAlias(cid)
				// the provisional peer end of this step becomes that alias
				for k, pe := range s.peerEnd {
					if k < 0 {
						s.peerEnd[alias] = pe
						delete(s.peerEnd, k)
					}
				}
				obs = append(obs, Obs{"k": "attempt", "to": c, "peer": s.peerName(&net.TCPAddr{IP: pa.IP, Port: pa.Port}), "id": alias})

				continue
			}
			o := Obs{"k": "resp", "to": c, "m": methodName(m.Type.Method), "code": 0, "txok": m.TransactionID == s.curTxid}
			if m.Type.Class == stun.ClassSuccessResponse {
				o["cls"] = "ok"
				var ra proto.RelayedAddress
				if ra.GetFrom(m) == nil {
					s.relay[c] = &net.TCPAddr{IP: ra.IP, Port: ra.Port}
				}
				var cid proto.ConnectionID
				if m.Type.Method == stun.MethodConnect && cid.GetFrom(m) == nil {
					o["id"] = s.newAlias(cid)
				}
			} else {
				o["cls"] = "err"
				var ec stun.ErrorCodeAttribute
				if ec.GetFrom(m) == nil {
					o["code"] = int(ec.Code)
				}
			}
			obs = append(obs, o)
		}
	}
	// peers: connections accepted from a relayed address
	pk := make([]string, 0, len(s.peerLis))
	for k := range s.peerLis {
		pk = append(pk, k)
	}
	sort.Strings(pk)
	for _, k := range pk {
		for {
			var st *MemStream
			select {
			case st = <-s.peerLis[k].ch:
			default:
			}
			if st == nil {
				break
			}
			from := "?" + st.RemoteAddr().String()
			for c, ra := range s.relay {
				if ra.String() == st.RemoteAddr().String() {
					from = c
				}
			}
			// it belongs to the Connect of this step: alias = the id in this step's response
			alias := 0
			for _, o := range obs {
				if o["k"] == "resp" && o["m"] == "Connect" && o["cls"] == "ok" {
					alias = toInt(o["id"])
				}
			}
			s.peerEnd[alias] = st
			var ip string
			var port int
			_, _ = fmt.Sscanf(k, "%1s/%d", &ip, &port)
			obs = append(obs, Obs{"k": "peeraccept", "peer": []any{ip, port}, "from": from})
		}
	}
	// bytes and closes on peer connections and data connections
	ids := map[int]bool{}
	for id := range s.peerEnd {
		ids[id] = true
	}
	for id := range s.dataEnd {
		ids[id] = true
	}
	sorted := make([]int, 0, len(ids))
	for id := range ids {
		sorted = append(sorted, id)
	}
	sort.Ints(sorted)
	for _, id := range sorted {
		if pe := s.peerEnd[id]; pe != nil && !pe.IsClosed() {
			if b := pe.Buffered(); len(b) > 0 {
				obs = append(obs, Obs{"k": "topeerconn", "id": id, "raw": b})
			}
			if pe.PeerClosed() {
				obs = append(obs, Obs{"k": "closed", "id": id, "what": "peerconn"})
				_ = pe.Close()
			}
		}
		if de := s.dataEnd[id]; de != nil && !de.IsClosed() {
			if b := de.Buffered(); len(b) > 0 {
				obs = append(obs, Obs{"k": "todata", "id": id, "raw": b})
			}
			if de.PeerClosed() {
				obs = append(obs, Obs{"k": "closed", "id": id, "what": "data"})
				_ = de.Close()
			}
		}
	}

	return obs
}

func (s *tcpSys) newAlias(cid proto.ConnectionID) int {
	if a, ok := s.aliasOf[cid]; ok {
		return -a // an id handed out twice
	}
	a := len(s.aliasOf) + 1
	s.aliasOf[cid] = a
	s.idOf[a] = cid

	return a
}

func (s *tcpSys) Check(e Edge, obs []Obs) []Mismatch {
	var ms []Mismatch
	name, _ := e.A["a"].(string)
	// ---- outputs -----------------------------------------------------------
	type rec = map[string]any
	var exp []rec
	for _, x := range e.O {
		exp = append(exp, x.(map[string]any))
	}
	used := make([]bool, len(obs))
	find := func(pred func(Obs) bool) (Obs, bool) {
		for i, o := range obs {
			if !used[i] && pred(o) {
				used[i] = true

				return o, true
			}
		}

		return nil, false
	}
	heldWant := [][]byte{}
	if h := heldMap[s][toInt(e.A["id"])]; h != nil && name == "ConnectionBind" {
		heldWant = h.chunks
	}
	var todataExp []rec
	for _, x := range exp {
		switch x["k"] {
		case "resp":
			o, ok := find(func(o Obs) bool { return o["k"] == "resp" && o["to"] == x["to"] })
			switch {
			case !ok:
				ms = append(ms, Mismatch{"resp-", fmt.Sprintf("no %v response (spec %v %v)", x["m"], x["cls"], x["code"])})
			case o["cls"] != x["cls"] || o["m"] != x["m"]:
				ms = append(ms, Mismatch{"resp.class", fmt.Sprintf("%v: spec %v, server %v %v (code %v)", x["m"], x["cls"], o["m"], o["cls"], o["code"])})
			default:
				if ec := toInt(x["code"]); ec != 0 && ec != toInt(o["code"]) {
					ms = append(ms, Mismatch{"resp.code", fmt.Sprintf("%v: spec %d, server %v", x["m"], ec, o["code"])})
				}
				if tx, _ := o["txok"].(bool); !tx {
					ms = append(ms, Mismatch{"resp.txid", "response with another transaction id"})
				}
				if xid, has := x["id"]; has {
					if toInt(o["id"]) != toInt(xid) {
						ms = append(ms, Mismatch{"tcp.id", fmt.Sprintf("CONNECTION-ID alias %v, spec %v (negative = an id handed out before)", o["id"], xid)})
					}
				}
			}
		case "bindresp":
			o, ok := find(func(o Obs) bool { return o["k"] == "bindresp" })
			switch {
			case !ok:
				ms = append(ms, Mismatch{"resp-", "no ConnectionBind response"})
			case o["cls"] != x["cls"]:
				ms = append(ms, Mismatch{"tcp.bind", fmt.Sprintf("ConnectionBind(user %v, id %v): spec %v, server %v (code %v)", e.A["u"], e.A["id"], x["cls"], o["cls"], o["code"])})
			default:
				if ec := toInt(x["code"]); ec != 0 && ec != toInt(o["code"]) {
					ms = append(ms, Mismatch{"resp.code", fmt.Sprintf("ConnectionBind: spec %d, server %v", ec, o["code"])})
				}
			}
		case "attempt":
			o, ok := find(func(o Obs) bool { return o["k"] == "attempt" && o["to"] == x["to"] })
			switch {
			case !ok:
				ms = append(ms, Mismatch{"tcp.attempt-", fmt.Sprintf("no ConnectionAttempt indication to %v for peer %v", x["to"], x["peer"])})
			case canon(o["peer"]) != canon(x["peer"]) || toInt(o["id"]) != toInt(x["id"]):
				ms = append(ms, Mismatch{"tcp.attempt~", fmt.Sprintf("ConnectionAttempt names peer %v id %v, spec peer %v id %v", o["peer"], o["id"], x["peer"], x["id"])})
			}
		case "peeraccept":
			o, ok := find(func(o Obs) bool { return o["k"] == "peeraccept" && canon(o["peer"]) == canon(x["peer"]) })
			if !ok {
				ms = append(ms, Mismatch{"tcp.connect-", fmt.Sprintf("Connect success but peer %v saw no connection", x["peer"])})
			} else if o["from"] != x["from"] {
				ms = append(ms, Mismatch{"tcp.connect~", fmt.Sprintf("peer connection came from %v, spec: the relayed address of %v", o["from"], x["from"])})
			}
		case "peerclosed", "peerrefused":
			if _, ok := find(func(o Obs) bool { return o["k"] == x["k"] }); !ok {
				ms = append(ms, Mismatch{"tcp.inbound+", fmt.Sprintf("peer %v: spec %v, but the connection stayed open", x["peer"], x["k"])})
			}
		case "topeerconn":
			o, ok := find(func(o Obs) bool { return o["k"] == "topeerconn" && toInt(o["id"]) == toInt(x["id"]) })
			if !ok {
				ms = append(ms, Mismatch{"tcp.pipe-", fmt.Sprintf("bytes written on the data connection did not reach peer connection %v", x["id"])})
			} else if raw, _ := o["raw"].([]byte); !bytes.Equal(raw, s.curPay) {
				ms = append(ms, Mismatch{"tcp.pipe~", fmt.Sprintf("peer connection %v received %d bytes that differ from the %d sent", x["id"], len(raw), len(s.curPay))})
			}
		case "todata":
			todataExp = append(todataExp, x)
		case "duplex":
			o, ok := find(func(o Obs) bool { return o["k"] == "duplex" && toInt(o["id"]) == toInt(x["id"]) })
			if !ok || o["c2p"] != true || o["p2c"] != true {
				ms = append(ms, Mismatch{"tcp.pipe~", fmt.Sprintf("connection %v, 256 KiB each way under flow control: client->peer intact=%v (%v bytes), peer->client intact=%v (%v bytes)", x["id"], o["c2p"], o["nc2p"], o["p2c"], o["np2c"])})
			}
		case "closed":
			if _, ok := find(func(o Obs) bool {
				return o["k"] == "closed" && toInt(o["id"]) == toInt(x["id"]) && o["what"] == x["what"]
			}); !ok {
				ms = append(ms, Mismatch{"tcp.close-", fmt.Sprintf("connection %v: the %v side was not closed", x["id"], x["what"])})
			}
		}
	}
	if len(todataExp) > 0 {
		var want []byte
		if name == "ConnectionBind" {
			for _, h := range heldWant {
				want = append(want, h...)
			}
			delete(heldMap[s], toInt(e.A["id"]))
		} else {
			want = s.curPay
		}
		var got []byte
		for {
			o, ok := find(func(o Obs) bool { return o["k"] == "todata" && toInt(o["id"]) == toInt(todataExp[0]["id"]) })
			if !ok {
				break
			}
			raw, _ := o["raw"].([]byte)
			got = append(got, raw...)
		}
		if !bytes.Equal(got, want) {
			kind := "tcp.pipe~"
			if len(got) == 0 {
				kind = "tcp.pipe-"
			}
			ms = append(ms, Mismatch{kind, fmt.Sprintf("data connection %v received %d bytes, the peer sent %d (byte-identical expected)", todataExp[0]["id"], len(got), len(want))})
		}
	}
	for i, o := range obs {
		if used[i] {
			continue
		}
		switch o["k"] {
		case "closed":
			// the other half of a pair being closed as well is always allowed
			continue
		case "resp":
			if o["cls"] == "err" && len(exp) == 0 {
				continue // an error where the spec expects silence-or-error
			}
			if name == "ProbeAfterClose" {
				ms = append(ms, Mismatch{"afterclose", fmt.Sprintf("%v answered with success on a control connection of the closed server", o["m"])})

				continue
			}
			ms = append(ms, Mismatch{"resp+", fmt.Sprintf("unexpected %v %v response to %v", o["m"], o["cls"], o["to"])})
		default:
			ms = append(ms, Mismatch{"tcp.extra", fmt.Sprintf("unexpected %v", fmtObs([]Obs{o}))})
		}
	}
	// ---- state -------------------------------------------------------------
	ts, _ := e.TS.([]any)
	ms = append(ms, s.checkState(ts)...)
	// a request of one 5-tuple after which a connection of ANOTHER 5-tuple's allocation is gone
	if c, _ := e.A["c"].(string); c != "" && name != "Advance" {
		for _, o := range s.missingOwners {
			if o != c {
				ms = append(ms, Mismatch{"bystander", fmt.Sprintf("%v by %s: a peer connection of %s's allocation disappeared", name, c, o)})

				break
			}
		}
	}
	// ConnectionBind arrives on a connection of its own (another 5-tuple by construction); the party is its user
	if u, _ := e.A["u"].(string); name == "ConnectionBind" && len(ts) > 0 {
		alloc, _ := ts[0].(map[string]any)
		for _, o := range s.missingOwners {
			if a, _ := alloc[o].(map[string]any); a != nil && a["user"] != u {
				ms = append(ms, Mismatch{"bystander", fmt.Sprintf("ConnectionBind by user %s (refused): a peer connection of %s's allocation (user %v) disappeared", u, o, a["user"])})

				break
			}
		}
	}
	// a Connect / inbound connection of client c that the specification lets through but the server refuses
	// while ANOTHER 5-tuple holds a connection to the same peer: the answer depended on a foreign allocation
	if c, _ := e.A["c"].(string); len(ms) > 0 && (name == "Connect" || name == "PeerConnect") && c != "" {
		if ss, _ := e.SS.([]any); len(ss) > 2 {
			each := func(f func(map[string]any)) {
				switch cs := ss[2].(type) {
				case []any:
					for _, v := range cs {
						if r, ok := v.(map[string]any); ok {
							f(r)
						}
					}
				case map[string]any:
					for _, v := range cs {
						if r, ok := v.(map[string]any); ok {
							f(r)
						}
					}
				}
			}
			own, foreign := false, false
			each(func(r map[string]any) {
				if open, _ := r["open"].(bool); !open || fmt.Sprint(r["peer"]) != fmt.Sprint(e.A["p"]) {
					return
				}
				if r["owner"] == c {
					own = true
				} else {
					foreign = true
				}
			})
			refused := false
			for _, m := range ms {
				if m.Kind == "resp.class" || m.Kind == "tcp.inbound-" || m.Kind == "tcp.conn-" || m.Kind == "resp.code" {
					refused = true
				}
			}
			if foreign && !own && refused {
				ms = append(ms, Mismatch{"bystander", fmt.Sprintf("%v of %v toward %v was refused while only another 5-tuple's allocation holds a connection to that peer", name, c, e.A["p"])})
			}
		}
	}
	// a request of a user who does not own the allocation (source state of the edge) that had an effect all the same
	if c, _ := e.A["c"].(string); len(ms) > 0 && c != "" && (name == "Connect" || name == "CreatePermission") {
		if ss, _ := e.SS.([]any); len(ss) > 0 {
			if al, _ := ss[0].(map[string]any); al != nil {
				if ac, _ := al[c].(map[string]any); ac != nil {
					if live, _ := ac["live"].(bool); live && ac["user"] != e.A["u"] {
						for _, m := range ms {
							if m.Kind == "resp+" || m.Kind == "tcp.conn+" || m.Kind == "tcp.extra" || m.Kind == "perm+" {
								ms = append(ms, Mismatch{"tcp.nonowner", fmt.Sprintf("%v by user %v on the allocation of user %v had an effect (%s)", name, e.A["u"], ac["user"], m.Kind)})

								break
							}
						}
					}
				}
			}
		}
	}

	return ms
}

func (s *tcpSys) checkState(ts []any) []Mismatch {
	var ms []Mismatch
	mgrs := s.srv.VerifManagers()
	m := mgrs[0]
	if !m.VerifLocksFree() {
		return []Mismatch{{"locks", "the allocation manager's lock is held at a quiescent point"}}
	}
	alloc, _ := ts[0].(map[string]any)
	perm, _ := ts[1].(map[string]any)
	conn, _ := ts[2].(map[string]any)
	live := 0
	wantConns := map[int]map[string]any{}
	for idstr, v := range conn {
		rec, _ := v.(map[string]any)
		if open, _ := rec["open"].(bool); open {
			wantConns[toInt(idstr)] = rec
		}
	}
	if cs, ok := ts[2].([]any); ok { // TLC prints a function over 1..n as a sequence
		for i, v := range cs {
			rec, _ := v.(map[string]any)
			if open, _ := rec["open"].(bool); open {
				wantConns[i+1] = rec
			}
		}
	}
	// an orphan (registered on an allocation that had ended while its dial was in flight) is in no table the server
	// still has; its peer end stays open until the bind deadline, which the "closed" outputs of that step decide
	for alias, rec := range wantConns {
		if _, orphan := rec["orphan"]; orphan {
			delete(wantConns, alias)
			if pe := s.peerEnd[alias]; pe != nil && pe.PeerClosed() {
				ms = append(ms, Mismatch{"tcp.close+", fmt.Sprintf("connection %d (registered after its allocation had ended) was closed before the bind deadline", alias)})
			}
		}
	}
	seen := map[int]bool{}
	for c, ca := range s.caddr {
		ea, _ := alloc[c].(map[string]any)
		elive, _ := ea["live"].(bool)
		al := m.GetAllocation(&allocation.FiveTuple{SrcAddr: ca, DstAddr: s.laddr, Protocol: allocation.UDP})
		if elive {
			live++
		}
		switch {
		case elive && al == nil:
			ms = append(ms, Mismatch{"alloc-", c + ": spec has a live allocation, the server has none"})

			continue
		case !elive && al != nil:
			ms = append(ms, Mismatch{"alloc+", c + ": the server has an allocation, the spec has none"})

			continue
		case al == nil:
			continue
		}
		if !al.VerifLocksFree() {
			return []Mismatch{{"locks", "an allocation lock is held at a quiescent point"}}
		}
		if eu, _ := ea["user"].(string); eu != al.VerifUserID() {
			ms = append(ms, Mismatch{"alloc.owner", fmt.Sprintf("%s owner: spec %s, server %s", c, eu, al.VerifUserID())})
		}
		ep, _ := perm[c].(map[string]any)
		got := map[string]bool{}
		for _, p := range al.ListPermissions() {
			if ua, ok := p.Addr.(*net.UDPAddr); ok {
				got[s.ipName(ua.IP)] = true
			}
		}
		for i, v := range ep {
			if (toInt(v) > 0) != got[i] {
				ms = append(ms, Mismatch{map[bool]string{true: "perm+", false: "perm-"}[got[i]], fmt.Sprintf("%s: permission for %s: spec %v, server %v", c, i, toInt(v) > 0, got[i])})
			}
		}
		for _, tc := range m.VerifTCPConnections(al) {
			alias, known := s.aliasOf[tc.ID]
			if !known {
				ms = append(ms, Mismatch{"tcp.conn+", fmt.Sprintf("%s: a peer connection (%v) whose id was never announced", c, tc.Remote)})

				continue
			}
			seen[alias] = true
			w, ok := wantConns[alias]
			switch {
			case !ok:
				ms = append(ms, Mismatch{"tcp.conn+", fmt.Sprintf("%s: connection %d to %v still in the table, the spec has none", c, alias, tc.Remote)})
			case w["owner"] != c:
				ms = append(ms, Mismatch{"tcp.conn~", fmt.Sprintf("connection %d belongs to %s, spec %v", alias, c, w["owner"])})
			default:
				if canon(s.peerName(tc.Remote)) != canon(w["peer"]) {
					ms = append(ms, Mismatch{"tcp.conn~", fmt.Sprintf("connection %d peer %v, spec %v", alias, s.peerName(tc.Remote), w["peer"])})
				}
				if wb, _ := w["bound"].(bool); wb != tc.Bound {
					ms = append(ms, Mismatch{"tcp.bound", fmt.Sprintf("connection %d bound=%v, spec %v", alias, tc.Bound, wb)})
				}
			}
		}
	}
	s.missingOwners = nil
	for alias := range wantConns {
		if !seen[alias] {
			ms = append(ms, Mismatch{"tcp.conn-", fmt.Sprintf("connection %d missing from the server's table", alias)})
			s.missingOwners = append(s.missingOwners, fmt.Sprint(wantConns[alias]["owner"]))
		}
	}
	if n := s.srv.AllocationCount(); n != live && len(ms) == 0 {
		ms = append(ms, Mismatch{"count", fmt.Sprintf("AllocationCount()=%d, live allocations=%d", n, live)})
	}

	return ms
}
