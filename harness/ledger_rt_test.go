package verifx

import (
	"fmt"
	"net"
	"os"
	"strings"
	"sync"
	"sync/atomic"
	"testing"
	"time"

	"github.com/pion/stun/v3"
	"github.com/pion/turn/v5/internal/proto"
)

// Engine B driver in real time for the truthfulness of slow lifecycle callbacks (spec/TraceLedgerRT.tla): the
// server's timeouts are a few hundred milliseconds, the operator's OnPermissionDeleted / OnChannelDeleted take
// 150 ms each.  Per phase: one permission (then one channel) is installed and left to lapse while the peer sends a
// numbered datagram every 5 ms (the client submits numbered ChannelData every 5 ms); sends, arrivals and the
// callbacks are logged under one lock.  Nothing is re-installed while traffic flows, so an arrival can only be
// wrong in one way: it was sent after the deletion of its authority had been announced.
func runLedgerRT(t *testing.T, seed int64, log *traceLog) {
	t.Helper()
	meta := Meta{
		DefaultLife: 60, PermTO: 3, ChanTO: 5, MaxLife: 3600, InboundMTU: 1600, // in ticks of 100 ms
		Fam: map[string]int{"A": 4}, ListenFam: map[string]int{"c1": 4}, Clients: []string{"c1"}, Users: []string{"u1"}, PeerPorts: []int{1, 2, 3},
		Extra: map[string]string{"tick_ms": "100"},
	}
	w, err := NewWorld(meta, seed*4)
	if err != nil {
		t.Fatal(err)
	}
	defer w.Close()
	log.add(map[string]any{"e": "Reset", "seed": seed})
	var zGone atomic.Bool
	w.slowDeleted = func(kind, key string) {
		log.add(map[string]any{"e": "Ev", "kind": kind, "key": key})
		if kind == "chan-" && key == "16386" {
			zGone.Store(true)
		}
		time.Sleep(150 * time.Millisecond) // the operator's callback is slow
	}
	if err := w.mintNonce(func() { time.Sleep(10 * time.Millisecond) }); err != nil {
		t.Fatal(err)
	}
	c := "c1"
	n := 0
	txid := func() (id [stun.TransactionIDSize]byte) {
		n++
		copy(id[:], fmt.Sprintf("ledger%06d", n))

		return id
	}
	request := func(raw []byte) bool {
		w.sendFromClient(c, raw)
		deadline := time.Now().Add(5 * time.Second)
		for time.Now().Before(deadline) {
			for _, pk := range w.clients[c].Drain() {
				if stun.IsMessage(pk.Data) && !proto.IsChannelData(pk.Data) {
					m := &stun.Message{Raw: pk.Data}
					if m.Decode() == nil && m.Type.Class == stun.ClassSuccessResponse {
						var ra proto.RelayedAddress
						if ra.GetFrom(m) == nil {
							w.relayOf[c] = &net.UDPAddr{IP: ra.IP, Port: ra.Port}
						}

						return true
					}
				}
			}
			time.Sleep(time.Millisecond)
		}

		return false
	}
	// a request of the owner that gets no success within 5 s: recorded, and the execution ends there (the
	// specification has no step for it: the server has stopped serving)
	failed := func(what string) {
		log.add(map[string]any{"e": "Unserved", "what": what})
	}
	if !request(w.authed("u1", txid(), stun.MethodAllocate, proto.RequestedTransport{Protocol: proto.ProtoUDP})) {
		failed("Allocate")

		return
	}
	relay := w.relayOf[c]
	peer := w.peers["A/1"]
	pa := w.peerAddr([]any{"A", 1})
	for phase := 0; phase < 4; phase++ {
		useChan := phase%2 == 1
		if useChan {
			if !request(w.authed("u1", txid(), stun.MethodChannelBind, proto.ChannelNumber(0x4000), proto.PeerAddress{IP: pa.IP, Port: pa.Port})) {
				failed("ChannelBind")

				return
			}
			log.add(map[string]any{"e": "Ev", "kind": "chan+", "key": "16384"})
		} else if !request(w.authed("u1", txid(), stun.MethodCreatePermission, proto.PeerAddress{IP: pa.IP, Port: pa.Port})) {
			failed("CreatePermission")

			return
		}
		log.add(map[string]any{"e": "Ev", "kind": "perm+", "key": "A"})
		var wg sync.WaitGroup
		stop := time.Now().Add(1100 * time.Millisecond)
		wg.Add(2)
		go func() { // traffic, one datagram each way every 5 ms
			defer wg.Done()
			for i := 0; time.Now().Before(stop); i++ {
				id := fmt.Sprintf("p%d-%d", phase, i)
				log.add(map[string]any{"e": "PeerSend", "ip": "A", "id": id})
				_, _ = peer.WriteTo([]byte(id+"|peer"), relay)
				if useChan {
					id2 := fmt.Sprintf("c%d-%d", phase, i)
					cd := proto.ChannelData{Number: 0x4000, Data: []byte(id2 + "|client")}
					cd.Encode()
					log.add(map[string]any{"e": "ChanSend", "n": "16384", "id": id2})
					w.sendFromClient(c, cd.Raw)
				}
				time.Sleep(5 * time.Millisecond)
			}
		}()
		go func() { // arrivals at the client and at the peer
			defer wg.Done()
			for time.Now().Before(stop.Add(100 * time.Millisecond)) {
				for _, pk := range w.clients[c].Drain() {
					var data []byte
					if proto.IsChannelData(pk.Data) {
						cd := proto.ChannelData{Raw: pk.Data}
						if cd.Decode() == nil {
							data = cd.Data
						}
					} else {
						m := &stun.Message{Raw: pk.Data}
						var d proto.Data
						if m.Decode() == nil && d.GetFrom(m) == nil {
							data = d
						}
					}
					if i := strings.IndexByte(string(data), '|'); i > 0 {
						log.add(map[string]any{"e": "Arrive", "at": "client", "id": string(data[:i])})
					}
				}
				for _, pk := range peer.Drain() {
					if i := strings.IndexByte(string(pk.Data), '|'); i > 0 {
						log.add(map[string]any{"e": "Arrive", "at": "peer", "id": string(pk.Data[:i])})
					}
				}
				time.Sleep(500 * time.Microsecond)
			}
		}()
		wg.Wait()
		time.Sleep(250 * time.Millisecond) // the callbacks of this phase finish before the next installation
	}
	// last phase: a permission and a channel are installed, traffic flows both ways, and the client refreshes with
	// lifetime 0.  From the moment the success response is in the client's hands (logged by the goroutine that reads
	// it) the allocation is gone: nothing sent after that moment arrives, however slow the operator's callbacks are.
	if !request(w.authed("u1", txid(), stun.MethodChannelBind, proto.ChannelNumber(0x4000), proto.PeerAddress{IP: pa.IP, Port: pa.Port})) {
		failed("ChannelBind")

		return
	}
	log.add(map[string]any{"e": "Ev", "kind": "chan+", "key": "16384"})
	log.add(map[string]any{"e": "Ev", "kind": "perm+", "key": "A"})
	var wg sync.WaitGroup
	stop := time.Now().Add(900 * time.Millisecond)
	refreshAt := time.Now().Add(150 * time.Millisecond)
	wg.Add(2)
	go func() {
		defer wg.Done()
		sent := false
		for i := 0; time.Now().Before(stop); i++ {
			if !sent && time.Now().After(refreshAt) {
				sent = true
				w.sendFromClient(c, w.authed("u1", txid(), stun.MethodRefresh, proto.Lifetime{}))
			}
			id, id2 := fmt.Sprintf("pz-%d", i), fmt.Sprintf("cz-%d", i)
			log.add(map[string]any{"e": "PeerSend", "ip": "A", "id": id})
			_, _ = peer.WriteTo([]byte(id+"|peer"), relay)
			cd := proto.ChannelData{Number: 0x4000, Data: []byte(id2 + "|client")}
			cd.Encode()
			log.add(map[string]any{"e": "ChanSend", "n": "16384", "id": id2})
			w.sendFromClient(c, cd.Raw)
			time.Sleep(5 * time.Millisecond)
		}
	}()
	go func() {
		defer wg.Done()
		for time.Now().Before(stop.Add(100 * time.Millisecond)) {
			for _, pk := range w.clients[c].Drain() {
				var data []byte
				if proto.IsChannelData(pk.Data) {
					cd := proto.ChannelData{Raw: pk.Data}
					if cd.Decode() == nil {
						data = cd.Data
					}
				} else {
					m := &stun.Message{Raw: pk.Data}
					if m.Decode() != nil {
						continue
					}
					if m.Type == stun.NewType(stun.MethodRefresh, stun.ClassSuccessResponse) {
						log.add(map[string]any{"e": "Gone", "ips": []string{"A"}, "chans": []string{"16384"}})

						continue
					}
					var d proto.Data
					if d.GetFrom(m) == nil {
						data = d
					}
				}
				if i := strings.IndexByte(string(data), '|'); i > 0 {
					log.add(map[string]any{"e": "Arrive", "at": "client", "id": string(data[:i])})
				}
			}
			for _, pk := range peer.Drain() {
				if i := strings.IndexByte(string(pk.Data), '|'); i > 0 {
					log.add(map[string]any{"e": "Arrive", "at": "peer", "id": string(pk.Data[:i])})
				}
			}
			time.Sleep(500 * time.Microsecond)
		}
	}()
	wg.Wait()
	time.Sleep(400 * time.Millisecond) // the callbacks of that teardown finish

	// three channels, two of which lapse in the same instant while the operator's callback is slow (their removals
	// overlap); the third, bound later, is still alive then: what the client submits on it must arrive, unless its
	// own deletion has been announced by then.
	if !request(w.authed("u1", txid(), stun.MethodAllocate, proto.RequestedTransport{Protocol: proto.ProtoUDP})) {
		failed("Allocate")

		return
	}
	relay = w.relayOf[c]
	bind := func(n int, port int) bool {
		a := w.peerAddr([]any{"A", port})
		if !request(w.authed("u1", txid(), stun.MethodChannelBind, proto.ChannelNumber(n), proto.PeerAddress{IP: a.IP, Port: a.Port})) { //nolint:gosec
			failed("ChannelBind")

			return false
		}
		log.add(map[string]any{"e": "Ev", "kind": "chan+", "key": fmt.Sprint(n)})

		return true
	}
	t0 := time.Now()
	if !bind(0x4000, 1) || !bind(0x4001, 2) {
		return
	}
	time.Sleep(time.Until(t0.Add(450 * time.Millisecond)))
	if !bind(0x4002, 3) {
		return
	}
	// the first two lapse at 500 ms; their removals (150 ms of callback each, one after the other under the table's
	// lock) are over at 800 ms; the third lives until 950 ms
	time.Sleep(time.Until(t0.Add(820 * time.Millisecond)))
	cd := proto.ChannelData{Number: 0x4002, Data: []byte("probe-z|client")}
	cd.Encode()
	log.add(map[string]any{"e": "Probe", "n": "16386", "id": "probe-z"})
	w.sendFromClient(c, cd.Raw)
	arrived := false
	// (waits until the datagram is there, or the channel's own deletion has been announced, or two seconds: a
	// handler held up behind a slow callback is not a loss)
	for dl := time.Now().Add(2 * time.Second); time.Now().Before(dl) && !arrived && !zGone.Load(); time.Sleep(time.Millisecond) {
		for _, pk := range w.peers["A/3"].Drain() {
			arrived = arrived || strings.HasPrefix(string(pk.Data), "probe-z|")
		}
	}
	log.add(map[string]any{"e": "ProbeEnd", "n": "16386", "id": "probe-z", "arrived": arrived})
	time.Sleep(600 * time.Millisecond) // everything of this phase lapses and is announced

	// the server is closed while a peer keeps sending to the relayed address and the operator's callbacks are slow:
	// afterwards nothing is left, and every allocation that was announced has been announced deleted
	if !request(w.authed("u1", txid(), stun.MethodCreatePermission, proto.PeerAddress{IP: pa.IP, Port: pa.Port})) {
		failed("CreatePermission")

		return
	}
	stopTraffic := make(chan struct{})
	var wg3 sync.WaitGroup
	wg3.Add(1)
	go func() {
		defer wg3.Done()
		for i := 0; ; i++ {
			select {
			case <-stopTraffic:
				return
			default:
			}
			_, _ = peer.WriteTo([]byte(fmt.Sprintf("down-%d|peer", i)), relay)
			time.Sleep(time.Millisecond)
		}
	}()
	time.Sleep(30 * time.Millisecond)
	_ = w.Srv.Close()
	time.Sleep(500 * time.Millisecond)
	close(stopTraffic)
	wg3.Wait()
	created, deleted := 0, 0
	w.evMu.Lock()
	for _, e := range w.Events {
		switch e.Kind {
		case "alloc+":
			created++
		case "alloc-":
			deleted++
		}
	}
	w.evMu.Unlock()
	log.add(map[string]any{"e": "Down", "count": w.Srv.AllocationCount(), "created": created, "deleted": deleted})
}

// TestLedgerRT records VERIF_NTRACES executions into VERIF_TRACE_OUT.
func TestLedgerRT(t *testing.T) {
	out := os.Getenv("VERIF_TRACE_OUT")
	if out == "" {
		t.Skip("VERIF_TRACE_OUT not set")
	}
	seed := envInt("VERIF_SEED", 1)
	n := int(envInt("VERIF_NTRACES", 2))
	log := &traceLog{}
	for i := 0; i < n; i++ {
		runLedgerRT(t, seed*1000+int64(i), log)
	}
	log.mu.Lock()
	lines := append([]string{}, log.lines...)
	log.mu.Unlock()
	if err := os.WriteFile(out, []byte(strings.Join(lines, "\n")+"\n"), 0o644); err != nil {
		t.Fatal(err)
	}
	t.Logf("recorded %d executions, %d events", n, len(lines))
}
