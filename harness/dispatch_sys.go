package verifx

import (
	"crypto/sha256"
	"encoding/binary"
	"fmt"
	"math/rand"
	"net"
	"time"

	"github.com/pion/stun/v3"
	turn "github.com/pion/turn/v5"
	"github.com/pion/turn/v5/internal/proto"
)

// dispatchSys binds spec/Dispatch.tla to the server's datagram listener, the server's stream
// listener and the client's HandleInbound.  Every Deliver step is followed by liveness probes.
type dispatchSys struct {
	mode string
	seed int64
	step int
	st   string
	rng  *rand.Rand
	// server-udp
	w *World
	// server-stream
	t *tcpSys
	// client
	mn     *MemNet
	cl     *turn.Client
	srv    *ccServer
	cconn  *MemConn
	sconn  *MemConn
	relay  net.PacketConn
	probeN int

	tcpAlloc interface{ Close() error }
}

func newDispatchSys(meta Meta, seed int64, init any) (Sys, error) {
	s := &dispatchSys{mode: meta.Extra["mode"], seed: seed, st: "none", rng: rand.New(rand.NewSource(seed))} //nolint:gosec
	var err error
	switch s.mode {
	case "server-udp":
		m := Meta{DefaultLife: 600, PermTO: 300, ChanTO: 600, MaxLife: 3600, Fam: map[string]int{"A": 4}, ListenFam: map[string]int{"c1": 4, "c2": 4},
			Clients: []string{"c1", "c2"}, Users: []string{"u1"}, PeerPorts: []int{1}}
		s.w, err = NewWorld(m, seed*4)
	case "server-stream":
		m := Meta{Clients: []string{"c1", "c2"}, Users: []string{"u1"}, Fam: map[string]int{"A": 4}, PeerPorts: []int{1}, DefaultLife: 600, PermTO: 300,
			Extra: map[string]string{"Listening": "{<<\"A\", 1>>}"}}
		var sys Sys
		sys, err = newTCPSys(m, seed, nil)
		if err == nil {
			s.t = sys.(*tcpSys)
		}
	case "client":
		s.mn = NewMemNet()
		saddr := &net.UDPAddr{IP: net.IPv4(10, 0, 0, 1).To4(), Port: 3478}
		caddr := &net.UDPAddr{IP: net.IPv4(10, 0, 0, 11).To4(), Port: 40001}
		s.sconn, s.cconn = s.mn.MustListen(saddr), s.mn.MustListen(caddr)
		s.srv = &ccServer{conn: s.sconn, client: caddr, log: &traceLog{}, rng: s.rng, relayed: &net.UDPAddr{IP: net.IPv4(10, 0, 0, 1).To4(), Port: 50001}}
		s.srv.policy = func(string) string { return "ok" }
		s.srv.peers = []ccPeer{{"A", 1, &net.UDPAddr{IP: net.IPv4(10, 1, 0, 1).To4(), Port: 5001}}}
		go s.srv.run()
		// the initial state says whether the client has a STUN server address besides the TURN server's
		stunAddr := saddr.String()
		if st, _ := init.(map[string]any); st != nil && st["stun"] == false {
			stunAddr = ""
		}
		s.cl, err = turn.NewClient(&turn.ClientConfig{
			STUNServerAddr: stunAddr, TURNServerAddr: saddr.String(), Conn: s.cconn, RTO: 50 * time.Millisecond,
			Username: "u1", Password: "pw-u1", Realm: realm, LoggerFactory: quietLoggerFactory{}, Net: newFakeNet(),
		})
		if err == nil {
			err = s.cl.Listen()
		}
	default:
		err = fmt.Errorf("unknown dispatch mode %q", s.mode)
	}

	return s, err
}

func (s *dispatchSys) Close() {
	switch s.mode {
	case "server-udp":
		s.w.Close()
	case "server-stream":
		s.t.Close()
	case "client":
		if c, ok := s.relay.(interface{ Close() error }); ok && s.relay != nil {
			_ = c.Close()
		}
		if s.tcpAlloc != nil {
			_ = s.tcpAlloc.Close()
		}
		s.cl.Close()
		_ = s.cconn.Close()
		_ = s.sconn.Close()
	}
}

func (s *dispatchSys) fill(n int, salt string) []byte {
	out := make([]byte, 0, n+32)
	for c := 0; len(out) < n; c++ {
		h := sha256.Sum256([]byte(fmt.Sprintf("disp/%d/%d/%s/%d", s.seed, s.step, salt, c)))
		out = append(out, h[:]...)
	}

	return out[:n]
}

// stunHeader writes a STUN header with the given type and length field over b[0:20].
func stunHeader(b []byte, typ uint16, length int) {
	binary.BigEndian.PutUint16(b[0:2], typ)
	binary.BigEndian.PutUint16(b[2:4], uint16(length)) //nolint:gosec
	binary.BigEndian.PutUint32(b[4:8], 0x2112A442)
}

// mutants returns n seeded byte-level mutations of well-formed messages (bit flips, truncations,
// extensions, length-field and type-field edits).
func (s *dispatchSys) mutants(n int, peer proto.PeerAddress) [][]byte {
	base := []string{"bindingOK", "allocNoAuth", "cbNoAuth", "cpNoAuth", "sendOK", "cdBound", "dataInd", "respSuccess", "bindingUnkReq", "allocDupAttrs", "refreshNoAuth"}
	out := make([][]byte, 0, n)
	for i := 0; i < n; i++ {
		b := append([]byte{}, s.shapeBytes(base[s.rng.Intn(len(base))], peer)...)
		for k := 1 + s.rng.Intn(3); k > 0 && len(b) > 0; k-- {
			switch s.rng.Intn(6) {
			case 0:
				b[s.rng.Intn(len(b))] ^= 1 << uint(s.rng.Intn(8))
			case 1:
				b = b[:s.rng.Intn(len(b)+1)]
			case 2:
				b = append(b, s.fill(1+s.rng.Intn(9), "ext")...)
			case 3:
				if len(b) >= 4 {
					binary.BigEndian.PutUint16(b[2:4], uint16(s.rng.Intn(0x10000))) //nolint:gosec
				}
			case 4:
				if len(b) >= 2 {
					binary.BigEndian.PutUint16(b[0:2], uint16(s.rng.Intn(0x10000))) //nolint:gosec
				}
			case 5:
				if len(b) >= 24 {
					binary.BigEndian.PutUint16(b[22:24], uint16(s.rng.Intn(0x10000))) //nolint:gosec
				}
			}
		}
		out = append(out, b)
	}

	return out
}

// shapeBytes concretises a server-side shape.
func (s *dispatchSys) shapeBytes(sh string, peer proto.PeerAddress) []byte {
	tid := stun.NewTransactionID()
	req := func(m stun.Method, attrs ...stun.Setter) []byte {
		st := append([]stun.Setter{txidSetter(tid), stun.NewType(m, stun.ClassRequest)}, attrs...)

		return stun.MustBuild(st...).Raw
	}
	unk := func(t stun.AttrType) stun.Setter {
		return stun.RawAttribute{Type: t, Value: s.fill(4, "unk")}
	}
	switch sh {
	case "empty":
		return []byte{}
	case "one":
		return s.fill(1, "x")
	case "three", "prefix3":
		return []byte{0x40, 0x00, 0x00}
	case "short19":
		b := s.fill(19, "x")
		stunHeader(append(b, 0)[:20], 0x0001, 0)

		return b[:19]
	case "cdLenOver":
		return append([]byte{0x40, 0x00, 0x00, 0x40}, s.fill(8, "cd")...)
	case "cdInvalidNum":
		return append([]byte{0x80, 0x01, 0x00, 0x04}, s.fill(4, "cd")...)
	case "cdUnbound":
		return append([]byte{0x55, 0x55, 0x00, 0x04}, s.fill(4, "cd")...)
	case "cdBound":
		return append([]byte{0x40, 0x00, 0x00, 0x08}, s.fill(8, "cd")...)
	case "cdBoundCookie":
		return append([]byte{0x40, 0x00, 0x00, 0x14, 0x21, 0x12, 0xa4, 0x42}, s.fill(16, "cd")...)
	case "cdOversize":
		return append([]byte{0x55, 0x55, 0x07, 0xd0}, s.fill(2000, "big")...)
	case "stunOversize":
		b := append([]byte{0x00, 0x01, 0x06, 0xa4, 0x21, 0x12, 0xa4, 0x42}, s.fill(12+1700, "bigstun")...)
		// one unknown comprehension-optional attribute that fills the body
		binary.BigEndian.PutUint16(b[20:22], 0x8099)
		binary.BigEndian.PutUint16(b[22:24], 1696)

		return b
	case "cdUnboundCookie":
		return append([]byte{0x55, 0x55, 0x00, 0x14, 0x21, 0x12, 0xa4, 0x42}, s.fill(16, "cd")...)
	case "stunBadCookie":
		b := req(stun.MethodBinding)
		b[4] ^= 0xff

		return b
	case "stunLenLong":
		b := req(stun.MethodBinding)
		binary.BigEndian.PutUint16(b[2:4], 64)

		return b
	case "stunLenShort":
		b := req(stun.MethodBinding, stun.NewSoftware("abcdefgh"))
		binary.BigEndian.PutUint16(b[2:4], 4)

		return b
	case "stunUnaligned":
		b := append(req(stun.MethodBinding), s.fill(3, "u")...)
		binary.BigEndian.PutUint16(b[2:4], 3)

		return b
	case "stunLenFFEC", "prefixStunFFEC":
		b := append(req(stun.MethodBinding), s.fill(8, "u")...)
		binary.BigEndian.PutUint16(b[2:4], 0xFFEC)

		return b
	case "prefixChanFFFF":
		return append([]byte{0x40, 0x00, 0xFF, 0xFF}, s.fill(12, "cd")...)
	case "junk20":
		b := s.fill(24, "junk")
		b[0], b[1], b[4] = 0xC3, 0x99, 0x00

		return b
	case "attrOverrun":
		b := req(stun.MethodBinding, stun.NewSoftware("abcdefgh"))
		binary.BigEndian.PutUint16(b[22:24], 200) // the attribute claims more than the message holds

		return b
	case "respSuccess":
		return stun.MustBuild(txidSetter(tid), stun.BindingSuccess).Raw
	case "respError":
		return stun.MustBuild(txidSetter(tid), stun.NewType(stun.MethodAllocate, stun.ClassErrorResponse), stun.CodeBadRequest).Raw
	case "indBinding":
		return stun.MustBuild(txidSetter(tid), stun.NewType(stun.MethodBinding, stun.ClassIndication)).Raw
	case "indAllocate":
		return stun.MustBuild(txidSetter(tid), stun.NewType(stun.MethodAllocate, stun.ClassIndication)).Raw
	case "reqUnknownMethod":
		return req(stun.Method(0x0ff))
	case "dataInd":
		return stun.MustBuild(txidSetter(tid), stun.NewType(stun.MethodData, stun.ClassIndication), peer, proto.Data(s.fill(9, "d"))).Raw
	case "sendOK":
		return stun.MustBuild(txidSetter(tid), stun.NewType(stun.MethodSend, stun.ClassIndication), peer, proto.Data(s.fill(9, "d"))).Raw
	case "sendNoPerm":
		return stun.MustBuild(txidSetter(tid), stun.NewType(stun.MethodSend, stun.ClassIndication),
			proto.PeerAddress{IP: net.IPv4(10, 77, 0, 1).To4(), Port: 9}, proto.Data(s.fill(9, "d"))).Raw
	case "sendNoData":
		return stun.MustBuild(txidSetter(tid), stun.NewType(stun.MethodSend, stun.ClassIndication), peer).Raw
	case "sendNoPeer":
		return stun.MustBuild(txidSetter(tid), stun.NewType(stun.MethodSend, stun.ClassIndication), proto.Data(s.fill(9, "d"))).Raw
	case "sendEmptyPeer48": // 20 + (4 + 20) + (4 + 0) = 48 bytes, the empty XOR-PEER-ADDRESS last
		return stun.MustBuild(txidSetter(tid), stun.NewType(stun.MethodSend, stun.ClassIndication), proto.Data(s.fill(20, "d")),
			stun.RawAttribute{Type: stun.AttrXORPeerAddress, Value: []byte{}}).Raw
	case "bindingOK":
		return req(stun.MethodBinding)
	case "bindingUnkOpt":
		return req(stun.MethodBinding, unk(0xC001))
	case "bindingUnkReq":
		return req(stun.MethodBinding, unk(0x7001))
	case "allocUnkReq":
		return req(stun.MethodAllocate, proto.RequestedTransport{Protocol: proto.ProtoUDP}, unk(0x7002))
	case "allocNoAuth":
		return req(stun.MethodAllocate, proto.RequestedTransport{Protocol: proto.ProtoUDP})
	case "allocDupAttrs":
		return req(stun.MethodAllocate, proto.RequestedTransport{Protocol: proto.ProtoUDP}, proto.RequestedTransport{Protocol: proto.ProtoTCP},
			proto.Lifetime{Duration: time.Second}, proto.Lifetime{Duration: time.Hour})
	case "refreshNoAuth":
		return req(stun.MethodRefresh, proto.Lifetime{})
	case "cpNoAuth":
		return req(stun.MethodCreatePermission, peer)
	case "cbNoAuth":
		return req(stun.MethodChannelBind, proto.ChannelNumber(0x4001), peer)
	case "connectNoAuth":
		return req(stun.MethodConnect, peer)
	case "cbindNoAuth":
		return req(stun.MethodConnectionBind, proto.ConnectionID(1))
	}

	return nil
}

func (s *dispatchSys) Do(a map[string]any, wait func()) ([]Obs, error) {
	s.step++
	switch s.mode {
	case "server-udp":
		return s.doServerUDP(a, wait)
	case "server-stream":
		return s.doServerStream(a, wait)
	}

	return s.doClient(a, wait)
}

func (s *dispatchSys) doServerUDP(a map[string]any, wait func()) ([]Obs, error) {
	w := s.w
	peer := proto.PeerAddress{IP: w.peerIP["A"], Port: w.peerPort[1]}
	if a["a"] == "Setup" {
		s.st = a["kind"].(string)
		time.Sleep(time.Microsecond)
		wait()
		if err := w.ensureNonce(wait); err != nil {
			return nil, err
		}
		tr := proto.ProtoUDP
		if s.st == "tcp" {
			tr = proto.ProtoTCP
		}
		w.step++
		for _, raw := range [][]byte{
			w.authed("u1", w.freshTxid(), stun.MethodAllocate, proto.RequestedTransport{Protocol: tr}),
			w.authed("u1", w.txid("cp"), stun.MethodCreatePermission, peer),
			w.authed("u1", w.txid("cb"), stun.MethodChannelBind, proto.ChannelNumber(0x4000), peer),
		} {
			w.sendFromClient("c1", raw)
			wait()
			ok := false
			for _, pk := range w.clients["c1"].Drain() {
				m := &stun.Message{Raw: pk.Data}
				if m.Decode() == nil && m.Type.Class == stun.ClassSuccessResponse {
					ok = true
				}
			}
			if !ok {
				return nil, fmt.Errorf("dispatch setup (%s): a request was not answered with success", s.st)
			}
		}

		return nil, nil
	}
	if a["shape"] == "mutated" {
		for _, raw := range s.mutants(150, peer) {
			w.sendFromClient("c1", raw)
			wait()
		}
		w.clients["c1"].Drain()
		for _, p := range w.peers {
			p.Drain()
		}

		return []Obs{{"k": "any", "alive": s.probeUDP("c1", wait) && s.probeUDP("c2", wait)}}, nil
	}
	raw := s.shapeBytes(a["shape"].(string), peer)
	time.Sleep(time.Microsecond)
	w.sendFromClient("c1", raw)
	wait()
	o := Obs{"k": "outcome", "cls": "silent", "code": 0}
	for _, pk := range w.clients["c1"].Drain() {
		m := &stun.Message{Raw: pk.Data}
		if m.Decode() != nil {
			o["cls"] = "garbage"

			continue
		}
		o["cls"] = "resp"
		var ec stun.ErrorCodeAttribute
		if ec.GetFrom(m) == nil {
			o["code"] = int(ec.Code)
		}
	}
	for _, p := range w.peers {
		if len(p.Drain()) > 0 {
			o["cls"] = "relay"
		}
	}
	o["alive"] = s.probeUDP("c1", wait) && s.probeUDP("c2", wait)

	return []Obs{o}, nil
}

func (s *dispatchSys) probeUDP(c string, wait func()) bool {
	w := s.w
	tid := stun.NewTransactionID()
	w.sendFromClient(c, stun.MustBuild(txidSetter(tid), stun.BindingRequest).Raw)
	wait()
	for _, pk := range w.clients[c].Drain() {
		m := &stun.Message{Raw: pk.Data}
		if m.Decode() == nil && m.TransactionID == tid && m.Type.Class == stun.ClassSuccessResponse {
			return true
		}
	}

	return false
}

func (s *dispatchSys) doServerStream(a map[string]any, wait func()) ([]Obs, error) {
	t := s.t
	if a["a"] == "Setup" {
		s.st = a["kind"].(string)
		_, err := t.Do(map[string]any{"a": "Allocate", "c": "c1", "u": "u1"}, wait)

		return nil, err
	}
	peer := proto.PeerAddress{IP: t.peerIP["A"], Port: 5001}
	if a["shape"] == "mutated" {
		// each mutant on its own fresh connection (a bad frame legitimately ends a connection)
		alive := true
		for i, raw := range s.mutants(60, peer) {
			st, err := t.net.DialTCP(&net.TCPAddr{IP: net.IPv4(10, 0, 0, 13).To4(), Port: 43000 + s.step*100 + i}, t.laddr)
			if err != nil {
				return nil, err
			}
			_, _ = st.Write(raw)
			wait()
			_ = st.Close()
			wait()
		}
		alive = alive && s.probeStream(t.ctrl["c2"], wait) && s.probeStream(t.ctrl["c1"], wait)

		return []Obs{{"k": "any", "alive": alive}}, nil
	}
	raw := s.shapeBytes(a["shape"].(string), peer)
	_, _ = t.ctrl["c1"].Write(raw)
	wait()
	o := Obs{"k": "outcome", "cls": "silent", "code": 0}
	ms, rest := parseFrames(t.ctrl["c1"].Buffered())
	if len(rest) > 0 {
		o["cls"] = "garbage"
	}
	for _, m := range ms {
		o["cls"] = "resp"
		var ec stun.ErrorCodeAttribute
		if ec.GetFrom(m) == nil {
			o["code"] = int(ec.Code)
		}
	}
	closed := t.ctrl["c1"].PeerClosed()
	if closed {
		o["cls"] = "closed"
	}
	// liveness: another party always; the same connection unless the server closed it or it is
	// (legitimately) waiting for the rest of a frame
	alive := s.probeStream(t.ctrl["c2"], wait)
	waiting := len(raw) > 0 && o["cls"] == "silent" && (a["shape"] == "prefixStunFFEC" || a["shape"] == "prefixChanFFFF" || a["shape"] == "prefix3")
	if !closed && !waiting {
		alive = alive && s.probeStream(t.ctrl["c1"], wait)
	}
	if closed || waiting {
		// continue with a fresh control connection for c1
		_ = t.ctrl["c1"].Close()
		wait()
		st, err := t.net.DialTCP(t.caddr["c1"], t.laddr)
		if err != nil {
			return nil, err
		}
		t.ctrl["c1"] = st
		alive = alive && s.probeStream(st, wait)
	}
	o["alive"] = alive

	return []Obs{o}, nil
}

func (s *dispatchSys) probeStream(c *MemStream, wait func()) bool {
	tid := stun.NewTransactionID()
	_, _ = c.Write(stun.MustBuild(txidSetter(tid), stun.BindingRequest).Raw)
	wait()
	ms, _ := parseFrames(c.Buffered())
	for _, m := range ms {
		if m.TransactionID == tid && m.Type.Class == stun.ClassSuccessResponse {
			return true
		}
	}

	return false
}

func (s *dispatchSys) doClient(a map[string]any, wait func()) ([]Obs, error) {
	peerA := s.srv.peers[0]
	if a["a"] == "Setup" {
		s.st = a["kind"].(string)
		if s.st == "udp" {
			relay, err := s.cl.Allocate()
			if err != nil {
				return nil, err
			}
			s.relay = relay
			// a write makes the client bind channel 0x4000 to A:1
			if _, err := relay.WriteTo([]byte("w|x"), peerA.addr); err != nil {
				return nil, err
			}
			time.Sleep(time.Second)
			wait()

			return nil, nil
		}
		ta, err := s.cl.AllocateTCP()
		s.tcpAlloc = ta

		return nil, err
	}
	sh := a["shape"].(string)
	from := net.Addr(&net.UDPAddr{IP: net.IPv4(10, 5, 5, 5).To4(), Port: 5})
	tid := stun.NewTransactionID()
	pa := proto.PeerAddress{IP: peerA.addr.IP, Port: peerA.addr.Port}
	ind := func(m stun.Method, attrs ...stun.Setter) []byte {
		st := append([]stun.Setter{txidSetter(tid), stun.NewType(m, stun.ClassIndication)}, attrs...)

		return stun.MustBuild(st...).Raw
	}
	var msgs [][]byte
	switch sh {
	case "appData":
		msgs = [][]byte{s.fill(40, "app")}
		msgs[0][0] = 0x80
	case "empty":
		msgs = [][]byte{{}}
	case "one":
		msgs = [][]byte{s.fill(1, "x")}
	case "short19":
		b := make([]byte, 20)
		stunHeader(b, 0x0101, 0)
		msgs = [][]byte{b[:19]}
	case "stunTruncated":
		b := stun.MustBuild(txidSetter(tid), stun.BindingSuccess, stun.NewSoftware("abcdefgh")).Raw
		msgs = [][]byte{b[:len(b)-4]}
	case "stunAttrOverrun":
		b := stun.MustBuild(txidSetter(tid), stun.BindingSuccess, stun.NewSoftware("abcdefgh")).Raw
		binary.BigEndian.PutUint16(b[22:24], 200)
		msgs = [][]byte{b}
	case "request":
		msgs = [][]byte{stun.MustBuild(txidSetter(tid), stun.BindingRequest).Raw}
	case "respUnknownTx":
		msgs = [][]byte{stun.MustBuild(txidSetter(tid), stun.BindingSuccess).Raw}
	case "indUnknownMethod":
		msgs = [][]byte{ind(stun.MethodAllocate)}
	case "dataIndNoPeer":
		msgs = [][]byte{ind(stun.MethodData, proto.Data(s.fill(5, "d")))}
	case "dataIndNoData":
		msgs = [][]byte{ind(stun.MethodData, pa)}
	case "dataIndOK":
		msgs = [][]byte{ind(stun.MethodData, pa, proto.Data(s.fill(5, "d")))}
	case "attemptNoPeer":
		msgs = [][]byte{ind(stun.MethodConnectionAttempt, proto.ConnectionID(5))}
	case "attemptNoID":
		msgs = [][]byte{ind(stun.MethodConnectionAttempt, pa)}
	case "attemptShortID": // CONNECTION-ID shorter than four bytes
		msgs = [][]byte{ind(stun.MethodConnectionAttempt, pa, stun.RawAttribute{Type: stun.AttrConnectionID, Value: []byte{1, 2}})}
	case "attemptOK":
		msgs = [][]byte{ind(stun.MethodConnectionAttempt, pa, proto.ConnectionID(uint32(1000+s.step)))} //nolint:gosec
	case "dataIndEmptyPeer": // XOR-PEER-ADDRESS of length zero as the last attribute
		msgs = [][]byte{ind(stun.MethodData, proto.Data(s.fill(5, "d")), stun.RawAttribute{Type: stun.AttrXORPeerAddress, Value: []byte{}})}
	case "attemptEmptyPeer":
		msgs = [][]byte{ind(stun.MethodConnectionAttempt, proto.ConnectionID(5), stun.RawAttribute{Type: stun.AttrXORPeerAddress, Value: []byte{}})}
	case "cdKnown":
		msgs = [][]byte{append([]byte{0x40, 0x00, 0x00, 0x04}, s.fill(4, "cd")...)}
	case "cdKnownCookie":
		msgs = [][]byte{append([]byte{0x40, 0x00, 0x00, 0x14, 0x21, 0x12, 0xa4, 0x42}, s.fill(16, "cd")...)}
	case "cdUnknown":
		msgs = [][]byte{append([]byte{0x66, 0x66, 0x00, 0x04}, s.fill(4, "cd")...)}
	case "cdLenOver":
		msgs = [][]byte{append([]byte{0x40, 0x00, 0x00, 0x40}, s.fill(8, "cd")...)}
	case "nonStunFromServer":
		msgs = [][]byte{s.fill(30, "ns")}
		msgs[0][0] = 0x90
		from = s.sconn.addr
	case "mutated":
		msgs = s.mutants(150, pa)
	case "burstData":
		for i := 0; i < 1100; i++ {
			msgs = append(msgs, ind(stun.MethodData, pa, proto.Data(s.fill(5, fmt.Sprint(i)))))
		}
	case "burstAttempts":
		for i := 0; i < 15; i++ {
			msgs = append(msgs, ind(stun.MethodConnectionAttempt, pa, proto.ConnectionID(uint32(5000+100*s.step+i)))) //nolint:gosec
		}
	default:
		return nil, fmt.Errorf("unknown client shape %q", sh)
	}
	type res struct {
		handled bool
		err     error
	}
	done := make(chan res, 1)
	go func() {
		var r res
		for _, m := range msgs {
			h, err := s.cl.HandleInbound(m, from)
			r.handled = h
			if err != nil {
				r.err = err
			}
		}
		done <- r
	}()
	wait()
	o := Obs{"k": "classified"}
	select {
	case r := <-done:
		o["handled"], o["err"] = r.handled, r.err != nil
		o["errtext"] = fmt.Sprint(r.err)
	default:
		o["blocked"] = true
	}
	// liveness: the client's own transactions still complete
	pd := make(chan error, 1)
	go func() {
		_, err := s.cl.SendBindingRequestTo(s.sconn.addr) // (works with and without a configured STUN server address)
		pd <- err
	}()
	time.Sleep(10 * time.Second)
	wait()
	select {
	case err := <-pd:
		o["alive"] = err == nil
	default:
		o["alive"] = false
	}

	return []Obs{o}, nil
}

func (s *dispatchSys) Check(e Edge, obs []Obs) []Mismatch {
	if e.A["a"] == "Setup" {
		return nil
	}
	var ms []Mismatch
	want, _ := e.O[0].(map[string]any)
	o := obs[0]
	if want["k"] == "any" {
		if bl, _ := o["blocked"].(bool); bl {
			return []Mismatch{{"dispatch.hang", "a mutated message made HandleInbound block"}}
		}
		if alive, _ := o["alive"].(bool); !alive {
			return []Mismatch{{"dispatch.dead", fmt.Sprintf("%s, state %v: after a batch of mutated messages the endpoint no longer serves a Binding transaction", s.mode, e.A["st"])}}
		}

		return nil
	}
	desc := fmt.Sprintf("%s, state %v, shape %v", s.mode, e.A["st"], e.A["shape"])
	if bl, _ := o["blocked"].(bool); bl {
		return []Mismatch{{"dispatch.hang", desc + ": HandleInbound did not return"}}
	}
	if want["k"] == "classified" {
		if o["handled"] != want["handled"] || o["err"] != want["err"] {
			ms = append(ms, Mismatch{"dispatch.class", fmt.Sprintf("%s: HandleInbound = (handled %v, error %v: %v), documented (handled %v, error %v)",
				desc, o["handled"], o["err"], o["errtext"], want["handled"], want["err"])})
		}
	} else {
		if o["cls"] != want["cls"] {
			ms = append(ms, Mismatch{"dispatch.class", fmt.Sprintf("%s: outcome %v (code %v), spec %v (code %v)", desc, o["cls"], o["code"], want["cls"], want["code"])})
		} else if want["cls"] == "resp" {
			wc := toInt(want["code"])
			if wc != toInt(o["code"]) && !(wc == 401 && toInt(o["code"]) == 438) {
				ms = append(ms, Mismatch{"dispatch.class", fmt.Sprintf("%s: answered with code %v, spec %v", desc, o["code"], wc)})
			}
		}
	}
	if alive, _ := o["alive"].(bool); !alive {
		ms = append(ms, Mismatch{"dispatch.dead", desc + ": afterwards the endpoint no longer serves a well-formed Binding transaction"})
	}

	return ms
}
