package verifx

import (
	"bytes"
	"fmt"
	"math/rand"
	"net"
	"os"
	"strings"
	"sync"
	"testing"
	"testing/synctest"
	"time"

	"github.com/pion/stun/v3"
	turn "github.com/pion/turn/v5"
)

// Engine B driver for C14: the real turn.Client against the real turn.Server in one bubble, over a
// network that loses up to six of the seven transmissions of any transaction (requests and
// responses), for more than two virtual hours: across the allocation (10 min), permission (5 min),
// channel (10 min) and nonce (1 h) horizons, with chatty and idle phases.  Probe datagrams are
// sent in both directions and their delivery is logged; the relayed socket is closed at a random
// moment (in a quarter of the executions just after the client's nonce has gone stale) and the
// server's allocation count is read right afterwards.

func runKeepAliveExecution(t *testing.T, seed int64, log *traceLog) {
	t.Helper()
	synctest.Test(t, func(t *testing.T) {
		rng := rand.New(rand.NewSource(seed)) //nolint:gosec
		meta := Meta{
			DefaultLife: 600, PermTO: 300, ChanTO: 600, MaxLife: 3600, Fam: map[string]int{"A": 4, "B": 4},
			ListenFam: map[string]int{"c1": 4}, Clients: []string{"c1"}, Users: []string{"u1"}, PeerPorts: []int{1, 2},
		}
		// "any number of peers": one execution in eight talks to 160 peers on 160 IPs
		many := seed%8 == 7 || os.Getenv("VERIF_KA_MANY") != ""
		if !many {
			meta.Fam["C"] = 4 // an IP the application never writes to (the listen-only peer below)
		}
		if many {
			meta.Fam = map[string]int{}
			for i := 0; i < 160; i++ {
				meta.Fam[fmt.Sprintf("P%03d", i)] = 4
			}
			meta.PeerPorts = []int{1}
		}
		// one execution in eight: an operator with 25-minute permissions and an application that sets
		// PermissionRefreshInterval to 12 minutes (the channel bindings keep their own 5-minute refresh)
		longPerm := seed%8 == 5
		if longPerm {
			meta.PermTO = 1500
		}
		w, err := NewWorld(meta, seed*4) // variant "plain"
		if err != nil {
			t.Fatal(err)
		}
		start := time.Now()
		sec := func() int { return int(time.Since(start) / time.Second) }
		var emu sync.Mutex
		evSeen := 0
		flushEvents := func() {
			w.evMu.Lock()
			evs := append([]Event{}, w.Events[evSeen:]...)
			evSeen = len(w.Events)
			w.evMu.Unlock()
			for _, e := range evs {
				log.add(map[string]any{"e": "Ev", "kind": e.Kind, "key": e.Key, "t": int((e.At - time.Duration(start.Sub(time.Date(2000, 1, 1, 0, 0, 0, 0, time.UTC)))) / time.Second)})
			}
		}
		// loss: any transmission of a transaction may be lost, in either direction, but never all seven
		lossP := []float64{0, 0.3, 0.6, 0.85}[rng.Intn(4)]
		drops := map[[stun.TransactionIDSize]byte]int{}
		nonceAt := time.Now()
		lastNonce := ""
		drop := func(p []byte, fromServer bool) bool {
			if !stun.IsMessage(p) {
				return false
			}
			m := &stun.Message{Raw: append([]byte{}, p...)}
			if m.Decode() != nil {
				return false
			}
			emu.Lock()
			defer emu.Unlock()
			if fromServer {
				var n stun.Nonce
				if n.GetFrom(m) == nil && n.String() != lastNonce {
					lastNonce, nonceAt = n.String(), time.Now()
				}
			}
			if m.Type.Class == stun.ClassIndication {
				return false
			}
			if drops[m.TransactionID] < 6 && rng.Float64() < lossP {
				drops[m.TransactionID]++

				return true
			}

			return false
		}
		cconn := w.clients["c1"]
		// which datagram is the FIRST transmission of its transaction (seen when it is submitted, lost or not)
		var smu sync.Mutex
		seenTx := map[[stun.TransactionIDSize]byte]bool{}
		firstTx := map[[stun.TransactionIDSize]byte]bool{}
		cconn.Drop = func(p []byte, _ net.Addr) bool {
			if stun.IsMessage(p) && len(p) >= 20 {
				var id [stun.TransactionIDSize]byte
				copy(id[:], p[8:20])
				smu.Lock()
				firstTx[id] = !seenTx[id]
				seenTx[id] = true
				smu.Unlock()
			}

			return drop(p, false)
		}
		if seed%4 == 1 {
			// a socket whose writes sometimes return late (0.8 s, the datagram has left at once): the answer can be
			// there before the sender starts to wait for it.  (First transmissions only: a retransmission is written
			// with the client's table lock held, and a goroutine that waits for a mutex stops the virtual clock.)
			cconn.AfterWrite = func(p []byte, _ net.Addr) {
				if !stun.IsMessage(p) || len(p) < 20 {
					return
				}
				var id [stun.TransactionIDSize]byte
				copy(id[:], p[8:20])
				smu.Lock()
				slow := firstTx[id] && p[0]&0x01 == 0 && p[1]&0x10 == 0 && rng.Intn(6) == 0 // a request, one time in six
				smu.Unlock()
				if slow {
					time.Sleep(800 * time.Millisecond)
				}
			}
		}
		w.listen4.Drop = func(p []byte, _ net.Addr) bool { return drop(p, true) }
		cl, err := turn.NewClient(&turn.ClientConfig{
			STUNServerAddr: w.listen4.addr.String(), TURNServerAddr: w.listen4.addr.String(), Conn: cconn,
			Username: "u1", Password: "pw-u1", Realm: realm, LoggerFactory: quietLoggerFactory{}, Net: newFakeNet(),
			PermissionRefreshInterval: map[bool]time.Duration{true: 12 * time.Minute}[longPerm],
		})
		if err != nil {
			t.Fatal(err)
		}
		if err := cl.Listen(); err != nil {
			t.Fatal(err)
		}
		relay, err := cl.Allocate()
		if err != nil {
			// every transaction gets at least one transmission through: an Allocate that fails all the same is
			// a step no specification allows
			log.add(map[string]any{"e": "Reset", "seed": seed, "loss": lossP})
			log.add(map[string]any{"e": "AllocateFailed", "err": err.Error()})
			cl.Close()
			w.Close()
			synctest.Wait()

			return
		}
		relayAddr, _ := relay.LocalAddr().(*net.UDPAddr)
		log.add(map[string]any{"e": "Reset", "seed": seed, "loss": lossP, "peers": len(meta.Fam) * len(meta.PeerPorts)})

		horizon := 7800 // 2 h 10 min
		closeAt := horizon/3 + rng.Intn(horizon*2/3)
		staleClose := rng.Intn(4) == 0
		// one execution in three: an early Close, then the same client allocates again on the same socket
		reopen := !staleClose && rng.Intn(3) == 0
		if reopen {
			closeAt = 30 + rng.Intn(1500)
		}
		written := map[string]bool{}
		peerKeys := []string{"A/1", "A/2", "B/1", "B/2"}
		if many {
			peerKeys = peerKeys[:0]
			for i := 0; i < 160; i++ {
				peerKeys = append(peerKeys, fmt.Sprintf("P%03d/1", i))
			}
		}
		if many { // the application talks to every peer once, early
			for _, k := range peerKeys {
				pa, _ := w.peers[k].LocalAddr().(*net.UDPAddr)
				_, _ = relay.WriteTo([]byte("hello|"+k), pa)
				synctest.Wait()
				w.peers[k].Drain()
				written[k] = true
			}
		}
		// a peer the application only listens to: one explicit Client.CreatePermission at the start, never a WriteTo.
		// What it sends must keep arriving for as long as the relayed socket is open.
		listenOnly := ""
		askListenOnly := func() error {
			pa, _ := w.peers["C/1"].LocalAddr().(*net.UDPAddr)
			if seed%4 == 2 {
				// asked for together with a peer the client knows already (the application has written to it)
				ka, _ := w.peers["A/1"].LocalAddr().(*net.UDPAddr)
				_, _ = relay.WriteTo([]byte("hello|A/1"), ka)
				synctest.Wait()
				w.peers["A/1"].Drain()

				return cl.CreatePermission(ka, pa)
			}

			return cl.CreatePermission(pa)
		}
		if !many && seed%2 == 0 {
			listenOnly = "C/1"
			if err := askListenOnly(); err != nil {
				listenOnly = ""
			} else {
				log.add(map[string]any{"e": "Note", "what": "explicit CreatePermission for a listen-only peer", "t": sec()})
			}
		}
		pn := 0
		probeOut := func(k string) {
			pn++
			pay := []byte(fmt.Sprintf("o%d|%s", pn, strings.Repeat("z", rng.Intn(30))))
			pa, _ := w.peers[k].LocalAddr().(*net.UDPAddr)
			_, werr := relay.WriteTo(pay, pa)
			synctest.Wait()
			got := false
			for _, pk := range w.peers[k].Drain() {
				if bytes.Equal(pk.Data, pay) && pk.From.String() == relayAddr.String() {
					got = true
				}
			}
			written[k] = true
			log.add(map[string]any{"e": "ProbeOut", "peer": k, "delivered": got, "err": fmt.Sprint(werr), "t": sec()})
		}
		probeIn := func(k string) {
			pn++
			pay := []byte(fmt.Sprintf("i%d|%s", pn, strings.Repeat("q", rng.Intn(30))))
			empty := rng.Intn(6) == 0
			if empty { // a zero-length datagram first (a NAT keep-alive): it is a datagram like any other
				_, _ = w.peers[k].WriteTo([]byte{}, relayAddr)
				synctest.Wait()
			}
			_, _ = w.peers[k].WriteTo(pay, relayAddr)
			synctest.Wait()
			// (with writes that return late the read loop may be busy handing a result to a caller that is still inside
			// its socket write -- ClientTxn!InboundBusy -- for up to 0.8 s: what the peer sent is delayed, not lost)
			patience := time.Millisecond
			if cconn.AfterWrite != nil {
				patience = time.Second
			}
			_ = relay.SetReadDeadline(time.Now().Add(patience))
			buf := make([]byte, 2000)
			n, from, rerr := relay.ReadFrom(buf)
			if empty && rerr == nil && n == 0 { // the empty datagram came out first: the probe is next
				n, from, rerr = relay.ReadFrom(buf)
			}
			pa, _ := w.peers[k].LocalAddr().(*net.UDPAddr)
			got := rerr == nil && bytes.Equal(buf[:n], pay) && from.String() == pa.String()
			log.add(map[string]any{"e": "ProbeIn", "peer": k, "delivered": got, "t": sec()})
		}
		// the allocation must be gone as soon as one transmission of the Refresh(0) has arrived: at once
		// on a loss-free network, and in any case within one transaction (7 transmissions, 6.2 s)
		afterClose := func(nonceAge int) {
			c0 := w.Srv.AllocationCount()
			time.Sleep(8 * time.Second)
			synctest.Wait()
			flushEvents()
			log.add(map[string]any{"e": "AfterClose", "count0": c0, "count8": w.Srv.AllocationCount(), "lossless": lossP == 0,
				"nonce_age_s": nonceAge, "t": sec()})
		}
		chatty := true
		deafUntil := 0
		phaseEnd := 0
		closed := false
		for sec() < horizon && !closed {
			flushEvents()
			if reopen && sec() >= closeAt {
				reopen = false
				emu.Lock()
				age := time.Since(nonceAt)
				emu.Unlock()
				log.add(map[string]any{"e": "Close", "t": sec(), "nonce_age_s": int(age / time.Second)})
				_ = relay.Close()
				synctest.Wait()
				afterClose(int(age / time.Second))
				if w.Srv.AllocationCount() != 0 {
					closed = true

					break
				}
				time.Sleep(time.Duration(rng.Intn(200)) * time.Second)
				oldRelay := relay
				relay, err = cl.Allocate()
				if err != nil {
					log.add(map[string]any{"e": "AllocateFailed", "err": err.Error()})
					closed = true

					break
				}
				relayAddr, _ = relay.LocalAddr().(*net.UDPAddr)
				written = map[string]bool{}
				if rng.Intn(2) == 0 {
					// a deferred / defensive second Close of the socket that is closed already: an error for the
					// caller, nothing for the socket that is open now
					_ = oldRelay.Close()
					synctest.Wait()
				}
				if listenOnly != "" { // the new allocation knows nothing of the old one's permissions
					if err := askListenOnly(); err != nil {
						listenOnly = ""
					}
				}
				closeAt = horizon/3 + rng.Intn(horizon*2/3)
				flushEvents()
				log.add(map[string]any{"e": "Reopen", "t": sec()})

				continue
			}
			if sec() >= phaseEnd {
				chatty = !chatty || sec() == 0
				if chatty {
					phaseEnd = sec() + 60 + rng.Intn(600)
				} else {
					phaseEnd = sec() + 600 + rng.Intn(2700) // idle for 10 to 55 minutes
				}
			}
			emu.Lock()
			age := time.Since(nonceAt)
			emu.Unlock()
			if (!staleClose && sec() >= closeAt) || (staleClose && age > 61*time.Minute && sec() > 3000) {
				log.add(map[string]any{"e": "Close", "t": sec(), "nonce_age_s": int(age / time.Second)})
				_ = relay.Close()
				synctest.Wait()
				afterClose(int(age / time.Second))
				closed = true

				break
			}
			// one execution in eight: an application that only sends for more than an hour while 1500 relayed
			// datagrams sit unread in its socket (more than the queue holds); the relay must stay alive all the same
			if seed%8 == 3 && deafUntil == 0 && sec() > 500 && len(written) > 0 && !reopen {
				for k := range written {
					for i := 0; i < 1500; i++ {
						_, _ = w.peers[k].WriteTo([]byte(fmt.Sprintf("unread%d|", i)), relayAddr)
						if i%100 == 99 {
							synctest.Wait()
						}
					}

					break
				}
				synctest.Wait()
				deafUntil = sec() + 4300
				log.add(map[string]any{"e": "Note", "what": "1500 datagrams left unread", "t": sec()})
			}
			if deafUntil > 0 && sec() >= deafUntil { // the application finally reads what is there
				deafUntil = -1
				for {
					_ = relay.SetReadDeadline(time.Now().Add(time.Millisecond))
					if _, _, rerr := relay.ReadFrom(make([]byte, 2000)); rerr != nil {
						break
					}
				}
			}
			if chatty {
				k := peerKeys[rng.Intn(len(peerKeys))]
				if rng.Intn(2) == 0 || !written[k] || deafUntil > 0 {
					probeOut(k)
				} else {
					probeIn(k)
				}
				time.Sleep(time.Duration(1+rng.Intn(20)) * time.Second)
			} else {
				step := 1 + rng.Intn(97)
				if staleClose {
					step = 1 + rng.Intn(7) // fine steps so that the stale window is not jumped over
				}
				time.Sleep(time.Duration(step) * time.Second)
			}
			synctest.Wait()
			if listenOnly != "" && deafUntil <= 0 && rng.Intn(4) == 0 {
				probeIn(listenOnly)
			}
			// at the end of an idle phase, everything the client ever used must still work
			if !chatty && sec() >= phaseEnd {
				for _, k := range peerKeys {
					if written[k] {
						probeOut(k)
						if deafUntil <= 0 {
							probeIn(k)
						}
					}
				}
			}
		}
		if !closed {
			log.add(map[string]any{"e": "Close", "t": sec(), "nonce_age_s": 0})
			_ = relay.Close()
			synctest.Wait()
			afterClose(0)
		}
		log.add(map[string]any{"e": "End"})
		cl.Close()
		w.Close()
		synctest.Wait()
	})
}

// TestKeepAliveTrace records VERIF_NTRACES executions into VERIF_TRACE_OUT.
func TestKeepAliveTrace(t *testing.T) {
	out := os.Getenv("VERIF_TRACE_OUT")
	if out == "" {
		t.Skip("VERIF_TRACE_OUT not set")
	}
	startWatchdogFor(t)
	seed := envInt("VERIF_SEED", 1)
	n := int(envInt("VERIF_NTRACES", 8))
	log := &traceLog{}
	for i := 0; i < n; i++ {
		markProgress(fmt.Sprintf("keepalive execution %d", i))
		runKeepAliveExecution(t, seed*1000+int64(i), log)
	}
	markProgress("")
	if err := os.WriteFile(out, []byte(strings.Join(log.lines, "\n")+"\n"), 0o644); err != nil {
		t.Fatal(err)
	}
	t.Logf("recorded %d executions, %d events", n, len(log.lines))
}
