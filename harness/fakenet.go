package verifx

import (
	"net"

	"github.com/pion/transport/v4"
)

// fakeNet is the transport.Net handed to the real client: address resolution of literals only;
// everything else the client needs goes through the PacketConn the harness gives it.
type fakeNet struct {
	transport.Net
	mem *MemNet
}

func newFakeNet() *fakeNet { return &fakeNet{} }

func (f *fakeNet) ResolveUDPAddr(network, address string) (*net.UDPAddr, error) {
	return net.ResolveUDPAddr(network, address)
}

func (f *fakeNet) ResolveTCPAddr(network, address string) (*net.TCPAddr, error) {
	return net.ResolveTCPAddr(network, address)
}
