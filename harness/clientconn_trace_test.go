package verifx

import (
	"crypto/sha256"
	"encoding/json"
	"fmt"
	"math/rand"
	"net"
	"os"
	"strings"
	"sync"
	"testing"
	"testing/synctest"
	"time"

	"github.com/pion/stun/v3"
	turn "github.com/pion/turn/v5"
	"github.com/pion/turn/v5/internal/proto"
)

// Engine B driver for C13: the real turn.Client and its relayed UDPConn against a scripted
// server in virtual time.  The driver is NOT derived from the specification: it is a seeded
// random program (writes to several peers, concurrent writers, idle periods, inbound bursts,
// reads with deadlines, Close) against a server whose reactions to CreatePermission and
// ChannelBind are drawn at random (success, 400, 403, 438 + new nonce, silence).  Everything
// observable is logged, one event per line, for TraceClientConn.tla.

type traceLog struct {
	mu    sync.Mutex
	lines []string
}

func (t *traceLog) add(v map[string]any) {
	b, _ := json.Marshal(v)
	t.mu.Lock()
	t.lines = append(t.lines, string(b))
	t.mu.Unlock()
}

type ccPeer struct {
	ip   string
	port int
	addr *net.UDPAddr
}

func (p ccPeer) rec() map[string]any { return map[string]any{"ip": p.ip, "port": p.port} }

type ccServer struct {
	conn     *MemConn
	client   *net.UDPAddr
	log      *traceLog
	rng      *rand.Rand
	peers    []ccPeer
	nonceN   int
	txN      int
	policy   func(method string) string
	mu       sync.Mutex
	dead     bool
	relayed  *net.UDPAddr
	seen     map[string]bool
	bindings bool
	answer   map[string]string
}

func (s *ccServer) peerOf(ip net.IP, port int) map[string]any {
	for _, p := range s.peers {
		if p.addr.IP.Equal(ip) && p.addr.Port == port {
			return p.rec()
		}
	}

	return map[string]any{"ip": "?" + ip.String(), "port": port}
}

func (s *ccServer) ipName(ip net.IP) string {
	for _, p := range s.peers {
		if p.addr.IP.Equal(ip) {
			return p.ip
		}
	}

	return "?" + ip.String()
}

func payID(b []byte) string {
	if i := strings.IndexByte(string(b), '|'); i > 0 {
		return string(b[:i])
	}

	return fmt.Sprintf("?%x", sha256.Sum256(b))[:12]
}

func (s *ccServer) reply(m *stun.Message, cls stun.MessageClass, attrs ...stun.Setter) {
	st := []stun.Setter{txidSetter(m.TransactionID), stun.NewType(m.Type.Method, cls)}
	st = append(st, attrs...)
	r := stun.MustBuild(st...)
	_, _ = s.conn.WriteTo(r.Raw, s.client)
}

func (s *ccServer) run() {
	buf := make([]byte, 70000)
	for {
		n, _, err := s.conn.ReadFrom(buf)
		if err != nil {
			return
		}
		data := append([]byte{}, buf[:n]...)
		if proto.IsChannelData(data) {
			cd := proto.ChannelData{Raw: data}
			if cd.Decode() == nil {
				s.log.add(map[string]any{"e": "ChanData", "n": int(cd.Number), "pay": payID(cd.Data)})
			}

			continue
		}
		m := &stun.Message{Raw: data}
		if m.Decode() != nil {
			continue
		}
		// a request is identified by its STUN transaction id: retransmissions are the same request
		tx := fmt.Sprintf("%x", m.TransactionID[:6])
		first := !s.seen[tx]
		if s.seen == nil {
			s.seen = map[string]bool{}
		}
		s.seen[tx] = true
		switch {
		case m.Type.Class == stun.ClassIndication && m.Type.Method == stun.MethodSend:
			var pa proto.PeerAddress
			var d proto.Data
			if pa.GetFrom(m) == nil && d.GetFrom(m) == nil {
				s.log.add(map[string]any{"e": "SendInd", "p": s.peerOf(pa.IP, pa.Port), "pay": payID(d)})
			}
		case m.Type.Class != stun.ClassRequest:
		case m.Type.Method == stun.MethodBinding:
			s.reply(m, stun.ClassSuccessResponse, &stun.XORMappedAddress{IP: s.client.IP, Port: s.client.Port})
		case m.Type.Method == stun.MethodAllocate:
			if !m.Contains(stun.AttrMessageIntegrity) {
				s.nonceN++
				s.reply(m, stun.ClassErrorResponse, stun.CodeUnauthorized, stun.NewNonce(fmt.Sprintf("nonce%d", s.nonceN)), stun.NewRealm(realm))

				continue
			}
			s.reply(m, stun.ClassSuccessResponse, proto.RelayedAddress{IP: s.relayed.IP, Port: s.relayed.Port},
				proto.Lifetime{Duration: 600 * time.Second}, &stun.XORMappedAddress{IP: s.client.IP, Port: s.client.Port})
		case m.Type.Method == stun.MethodRefresh:
			var lt proto.Lifetime
			_ = lt.GetFrom(m)
			s.log.add(map[string]any{"e": "Note", "what": "Refresh", "life": int(lt.Seconds())})
			if lt.Duration == 0 && m.Contains(stun.AttrLifetime) {
				s.reply(m, stun.ClassSuccessResponse, proto.Lifetime{})
			} else {
				s.reply(m, stun.ClassSuccessResponse, proto.Lifetime{Duration: 600 * time.Second})
			}
		case m.Type.Method == stun.MethodCreatePermission:
			var ips []string
			_ = m.ForEach(stun.AttrXORPeerAddress, func(mm *stun.Message) error {
				var pa proto.PeerAddress
				if pa.GetFrom(mm) == nil {
					ips = append(ips, s.ipName(pa.IP))
				}

				return nil
			})
			if first {
				s.log.add(map[string]any{"e": "CPReq", "tx": tx, "ips": ips})
			}
			s.react(m, tx, "CPResp", "CreatePermission")
		case m.Type.Method == stun.MethodChannelBind:
			var pa proto.PeerAddress
			var cn proto.ChannelNumber
			if pa.GetFrom(m) != nil || cn.GetFrom(m) != nil {
				continue
			}
			if first {
				s.log.add(map[string]any{"e": "CBReq", "tx": tx, "n": int(cn), "p": s.peerOf(pa.IP, pa.Port)})
			}
			s.react(m, tx, "CBResp", "ChannelBind")
		}
	}
}

func (s *ccServer) react(m *stun.Message, tx, ev, method string) {
	if s.answer == nil {
		s.answer = map[string]string{}
	}
	r, answered := s.answer[tx]
	if !answered {
		r = s.policy(method)
		if r == "silent" {
			return // this transmission is lost; a retransmission draws again
		}
		s.answer[tx] = r
		s.log.add(map[string]any{"e": ev, "tx": tx, "r": r})
	}
	switch r {
	case "ok":
		s.reply(m, stun.ClassSuccessResponse)
	case "438":
		s.nonceN++
		s.reply(m, stun.ClassErrorResponse, stun.CodeStaleNonce, stun.NewNonce(fmt.Sprintf("nonce%d", s.nonceN)), stun.NewRealm(realm))
	case "400":
		s.reply(m, stun.ClassErrorResponse, stun.CodeBadRequest)
	case "403":
		s.reply(m, stun.ClassErrorResponse, stun.CodeForbidden)
	}
}

func runClientConnExecution(t *testing.T, seed int64, log *traceLog) {
	t.Helper()
	synctest.Test(t, func(t *testing.T) {
		rng := rand.New(rand.NewSource(seed)) //nolint:gosec
		mn := NewMemNet()
		saddr := &net.UDPAddr{IP: net.IPv4(10, 0, 0, 1).To4(), Port: 3478}
		caddr := &net.UDPAddr{IP: net.IPv4(10, 0, 0, 11).To4(), Port: 40001}
		sconn, cconn := mn.MustListen(saddr), mn.MustListen(caddr)
		srv := &ccServer{conn: sconn, client: caddr, log: log, rng: rng, relayed: &net.UDPAddr{IP: net.IPv4(10, 0, 0, 1).To4(), Port: 50001}}
		for i, ip := range []string{"A", "B", "C"} {
			for port := 1; port <= 2; port++ {
				srv.peers = append(srv.peers, ccPeer{ip, port, &net.UDPAddr{IP: net.IPv4(10, 1, 0, byte(i+1)).To4(), Port: 5000 + port}})
			}
		}
		// two more peers whose addresses, written without a separator between IP and port, read the same:
		// 10.1.0.1:23456 and 10.1.0.12:3456
		srv.peers = append(srv.peers, ccPeer{"A", 18456, &net.UDPAddr{IP: net.IPv4(10, 1, 0, 1).To4(), Port: 23456}},
			ccPeer{"D", 1, &net.UDPAddr{IP: net.IPv4(10, 1, 0, 12).To4(), Port: 3456}})
		// reaction profile of this execution
		profile := rng.Intn(6)
		npeers := len(srv.peers)
		if profile == 4 {
			npeers = 2 // the same peers again and again, while the server never answers ChannelBind
		}
		srv.policy = func(method string) string {
			x := rng.Intn(100)
			switch profile {
			case 0: // friendly
				return "ok"
			case 1: // lossy
				if x < 35 {
					return "silent"
				}

				return "ok"
			case 4: // deaf to ChannelBind: every such transaction loses all its transmissions
				if method == "ChannelBind" && x < 92 {
					return "silent"
				}

				return "ok"
			case 5: // a storm of stale nonces: most requests are answered 438, often three times in a row
				if x < 80 {
					return "438"
				}

				return "ok"
			case 2: // stale nonces and refusals
				switch {
				case x < 25:
					return "438"
				case x < 35 && method == "CreatePermission":
					return "403"
				case x < 40 && method == "ChannelBind":
					return "403"
				}

				return "ok"
			default: // everything
				switch {
				case x < 15:
					return "silent"
				case x < 30:
					return "438"
				case x < 36:
					return "403"
				case x < 39 && method == "CreatePermission":
					return "400"
				}

				return "ok"
			}
		}
		go srv.run()
		cl, err := turn.NewClient(&turn.ClientConfig{
			STUNServerAddr: saddr.String(), TURNServerAddr: saddr.String(), Conn: cconn, RTO: 50 * time.Millisecond,
			Username: "u1", Password: "pw-u1", Realm: realm, LoggerFactory: quietLoggerFactory{}, Net: newFakeNet(),
		})
		if err != nil {
			t.Fatal(err)
		}
		if err := cl.Listen(); err != nil {
			t.Fatal(err)
		}
		relay, err := cl.Allocate()
		if err != nil {
			t.Fatalf("allocate: %v", err)
		}
		if rng.Intn(4) == 0 {
			// the application had an allocation before on this client: it closed that socket, allocated again, and
			// closes the old socket once more (a deferred Close): an error for the caller, nothing for the new socket
			old := relay
			_ = old.Close()
			synctest.Wait()
			if relay, err = cl.Allocate(); err != nil {
				t.Fatalf("allocate again: %v", err)
			}
			_ = old.Close()
			synctest.Wait()
		}
		log.add(map[string]any{"e": "Reset", "seed": seed, "profile": profile})
		var wg sync.WaitGroup
		wn, rn := 0, 0
		outstanding := 0
		busyIP := map[string]int{}
		var omu sync.Mutex
		nops := 40 + rng.Intn(40)
		closedAt := -1
		if rng.Intn(3) == 0 {
			closedAt = nops/2 + rng.Intn(nops/2)
		}
		// one logged read with a 1 ms deadline: true when a payload came out
		readLogged := func() bool {
			_ = relay.SetReadDeadline(time.Now().Add(time.Millisecond))
			buf := make([]byte, 2000)
			n, from, err := relay.ReadFrom(buf)
			if err != nil {
				log.add(map[string]any{"e": "ReadErr", "err": err.Error()})

				return false
			}
			ua, _ := from.(*net.UDPAddr)
			log.add(map[string]any{"e": "Read", "pay": payID(buf[:n]), "from": srv.peerOf(ua.IP, ua.Port)})

			return true
		}
		// a reader blocked in ReadFrom with nothing queued must be woken by its deadline, exactly then,
		// and by Close
		blockedRead := func(by string) {
			for readLogged() {
			}
			d := time.Duration(1+rng.Intn(9000)) * time.Millisecond
			late := by == "deadline" && rng.Intn(2) == 0 // the deadline is set while the reader is already blocked
			if late {
				by = "deadline set while blocked"
			}
			if by == "close" || late {
				_ = relay.SetReadDeadline(time.Time{})
			} else {
				_ = relay.SetReadDeadline(time.Now().Add(d))
			}
			t0 := time.Now()
			done := make(chan time.Duration, 1)
			go func() {
				buf := make([]byte, 2000)
				_, _, err := relay.ReadFrom(buf)
				if err == nil {
					done <- -1

					return
				}
				done <- time.Since(t0)
			}()
			synctest.Wait()
			if late { // a deadline applies to a pending read as well (net.PacketConn)
				d1 := time.Duration(rng.Intn(3000)) * time.Millisecond
				time.Sleep(d1)
				_ = relay.SetReadDeadline(time.Now().Add(d))
				d += d1
				time.Sleep(d - d1 + time.Millisecond)
				synctest.Wait()
			} else if by == "close" {
				time.Sleep(d)
				if rng.Intn(2) == 0 {
					// the base socket fails from now on (network unreachable): Close cannot send its Refresh, the socket
					// is closed all the same and blocked readers are released
					cconn.WriteErr = func([]byte, net.Addr) error { return errInjectedWrite }
				}
				log.add(map[string]any{"e": "Close"})
				_ = relay.Close()
				synctest.Wait()
			} else {
				time.Sleep(d + time.Millisecond)
				synctest.Wait()
			}
			select {
			case took := <-done:
				log.add(map[string]any{"e": "Woken", "by": by, "ok": took >= 0 && (took-d).Abs() <= time.Millisecond, "after_ms": int(took / time.Millisecond), "want_ms": int(d / time.Millisecond)})
			default:
				log.add(map[string]any{"e": "Woken", "by": by, "ok": false, "after_ms": -1, "want_ms": int(d / time.Millisecond)})
			}
		}
		for op := 0; op < nops; op++ {
			if op == closedAt {
				if rng.Intn(2) == 0 {
					blockedRead("close")
				} else {
					log.add(map[string]any{"e": "Close"})
					_ = relay.Close()
					synctest.Wait()
				}
			}
			if op != closedAt && closedAt != -2 && rng.Intn(25) == 0 && (closedAt < 0 || op < closedAt) {
				blockedRead("deadline")
			}
			if rng.Intn(12) == 0 && (closedAt < 0 || op < closedAt) {
				// the application asks for a permission itself (it may be refused): what WriteTo does afterwards
				// still depends on what the server answered
				p := srv.peers[rng.Intn(len(srv.peers))]
				omu.Lock()
				free := busyIP[p.ip] == 0 && outstanding == 0
				omu.Unlock()
				if free {
					_ = cl.CreatePermission(p.addr)
					synctest.Wait()
				}
			}
			switch x := rng.Intn(100); {
			case x < 45: // WriteTo, possibly concurrent with earlier ones
				p := srv.peers[rng.Intn(npeers)]
				omu.Lock()
				busy := outstanding
				// (writers to one peer IP serialise on a mutex the virtual clock cannot see through:
				// concurrent writers are only started toward different IPs)
				sameIP := busyIP[p.ip] > 0
				omu.Unlock()
				if busy >= 3 || sameIP {
					time.Sleep(time.Duration(1+rng.Intn(5)) * time.Second)
					synctest.Wait()

					continue
				}
				wn++
				id := fmt.Sprintf("w%d", wn)
				pay := []byte(id + "|" + strings.Repeat("x", rng.Intn(40)))
				omu.Lock()
				outstanding++
				busyIP[p.ip]++
				omu.Unlock()
				wg.Add(1)
				log.add(map[string]any{"e": "WriteCall", "p": p.rec(), "pay": id})
				go func() {
					defer wg.Done()
					_, err := relay.WriteTo(pay, p.addr)
					log.add(map[string]any{"e": "WriteRet", "pay": id, "ok": err == nil})
					omu.Lock()
					outstanding--
					busyIP[p.ip]--
					omu.Unlock()
				}()
				if rng.Intn(3) > 0 {
					synctest.Wait()
				}
			case x < 60: // time passes (retransmissions, refresh timers, binding checks)
				time.Sleep(time.Duration(rng.Intn(45000)) * time.Millisecond)
				synctest.Wait()
			case x < 80: // the server relays something from a peer
				burst := 1
				if rng.Intn(12) == 0 {
					burst = 1000 + rng.Intn(200) // more than the read queue holds
				}
				for b := 0; b < burst; b++ {
					p := srv.peers[rng.Intn(len(srv.peers))]
					rn++
					id := fmt.Sprintf("r%d", rn)
					pay := []byte(id + "|" + strings.Repeat("y", rng.Intn(30)))
					if rng.Intn(12) == 0 { // an empty datagram is a datagram (a keep-alive of the peer's NAT binding)
						pay = []byte{}
						id = payID(pay)
					}
					if rng.Intn(2) == 0 {
						m := stun.MustBuild(stun.TransactionID, stun.NewType(stun.MethodData, stun.ClassIndication),
							proto.PeerAddress{IP: p.addr.IP, Port: p.addr.Port}, proto.Data(pay))
						log.add(map[string]any{"e": "InjectInd", "p": p.rec(), "pay": id})
						_, _ = sconn.WriteTo(m.Raw, caddr)
					} else {
						n := 0x4000 + rng.Intn(8)
						cd := proto.ChannelData{Number: proto.ChannelNumber(n), Data: pay} //nolint:gosec
						cd.Encode()
						log.add(map[string]any{"e": "InjectChan", "n": n, "pay": id})
						_, _ = sconn.WriteTo(cd.Raw, caddr)
					}
					synctest.Wait()
				}
			default: // the application reads, with a deadline
				k := 1 + rng.Intn(4)
				if rng.Intn(10) == 0 {
					k = 1200
				}
				for i := 0; i < k; i++ {
					_ = relay.SetReadDeadline(time.Now().Add(time.Millisecond))
					buf := make([]byte, 2000)
					n, from, err := relay.ReadFrom(buf)
					if err != nil {
						log.add(map[string]any{"e": "ReadErr", "err": err.Error()})

						break
					}
					ua, _ := from.(*net.UDPAddr)
					log.add(map[string]any{"e": "Read", "pay": payID(buf[:n]), "from": srv.peerOf(ua.IP, ua.Port)})
				}
			}
		}
		// let outstanding writes finish (transactions give up after ~5 s of silence, retried 3 times)
		time.Sleep(40 * time.Second)
		synctest.Wait()
		wg.Wait()
		if closedAt < 0 {
			log.add(map[string]any{"e": "Close"})
			_ = relay.Close()
		}
		synctest.Wait()
		log.add(map[string]any{"e": "End"})
		cl.Close()
		_ = cconn.Close()
		_ = sconn.Close()
		synctest.Wait()
	})
}

// runTCPAllocExecution: a TCP allocation on the real client; the server announces more peer
// connections than the client's queue holds while the application accepts none; afterwards the
// client's inbound path must still work (a Binding transaction completes).
func runTCPAllocExecution(t *testing.T, seed int64, log *traceLog) {
	t.Helper()
	synctest.Test(t, func(t *testing.T) {
		rng := rand.New(rand.NewSource(seed)) //nolint:gosec
		mn := NewMemNet()
		saddr := &net.UDPAddr{IP: net.IPv4(10, 0, 0, 1).To4(), Port: 3478}
		caddr := &net.UDPAddr{IP: net.IPv4(10, 0, 0, 11).To4(), Port: 40001}
		sconn, cconn := mn.MustListen(saddr), mn.MustListen(caddr)
		srv := &ccServer{conn: sconn, client: caddr, log: log, rng: rng, relayed: &net.UDPAddr{IP: net.IPv4(10, 0, 0, 1).To4(), Port: 50001}}
		srv.policy = func(string) string { return "ok" }
		srv.bindings = true
		go srv.run()
		cl, err := turn.NewClient(&turn.ClientConfig{
			STUNServerAddr: saddr.String(), TURNServerAddr: saddr.String(), Conn: cconn, RTO: 50 * time.Millisecond,
			Username: "u1", Password: "pw-u1", Realm: realm, LoggerFactory: quietLoggerFactory{}, Net: newFakeNet(),
		})
		if err != nil {
			t.Fatal(err)
		}
		if err := cl.Listen(); err != nil {
			t.Fatal(err)
		}
		alloc, err := cl.AllocateTCP()
		if err != nil {
			t.Fatalf("allocate tcp: %v", err)
		}
		log.add(map[string]any{"e": "Reset", "seed": seed, "profile": "tcp"})
		n := 8 + rng.Intn(12)
		for i := 0; i < n; i++ {
			m := stun.MustBuild(stun.TransactionID, stun.NewType(stun.MethodConnectionAttempt, stun.ClassIndication),
				proto.PeerAddress{IP: net.IPv4(10, 1, 0, 1).To4(), Port: 6000 + i}, proto.ConnectionID(uint32(100+i))) //nolint:gosec
			log.add(map[string]any{"e": "Note", "what": "ConnectionAttempt", "i": i})
			_, _ = sconn.WriteTo(m.Raw, caddr)
			synctest.Wait()
		}
		done := make(chan error, 1)
		go func() {
			_, err := cl.SendBindingRequest()
			done <- err
		}()
		time.Sleep(10 * time.Second) // far longer than a whole transaction with all its retransmissions
		synctest.Wait()
		ok := false
		select {
		case err := <-done:
			ok = err == nil
		default:
		}
		log.add(map[string]any{"e": "Probe", "ok": ok, "after": fmt.Sprintf("%d ConnectionAttempt indications, none accepted", n)})
		log.add(map[string]any{"e": "End"})
		if ok {
			_ = alloc.Close()
			synctest.Wait()
			cl.Close()
			_ = cconn.Close()
			_ = sconn.Close()
			synctest.Wait()
		} else {
			// the read loop is stuck inside HandleInbound: nothing can be torn down in an orderly way and
			// this bubble cannot end; write out what was recorded and leave the process
			if flushTrace != nil {
				flushTrace()
			}
			os.Exit(5)
		}
	})
}

var flushTrace func()

// TestClientConnTrace records VERIF_NTRACES executions into VERIF_TRACE_OUT.
func TestClientConnTrace(t *testing.T) {
	out := os.Getenv("VERIF_TRACE_OUT")
	if out == "" {
		t.Skip("VERIF_TRACE_OUT not set")
	}
	startWatchdogFor(t)
	seed := envInt("VERIF_SEED", 1)
	n := int(envInt("VERIF_NTRACES", 20))
	log := &traceLog{}
	flushTrace = func() {
		log.mu.Lock()
		defer log.mu.Unlock()
		_ = os.WriteFile(out, []byte(strings.Join(log.lines, "\n")+"\n"), 0o644)
	}
	for i := 0; i < n; i++ {
		markProgress(fmt.Sprintf("clientconn execution %d", i))
		if i%10 == 9 {
			runTCPAllocExecution(t, seed*1000+int64(i), log)

			continue
		}
		runClientConnExecution(t, seed*1000+int64(i), log)
	}
	markProgress("")
	if err := os.WriteFile(out, []byte(strings.Join(log.lines, "\n")+"\n"), 0o644); err != nil {
		t.Fatal(err)
	}
	t.Logf("recorded %d executions, %d events", n, len(log.lines))
}
