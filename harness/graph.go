package verifx

import (
	"bufio"
	"encoding/json"
	"fmt"
	"math/rand"
	"os"
	"sort"
	"strconv"
	"strings"
)

// Edge is one transition of TLC's state graph.
type Edge struct {
	S, T int            // node ids
	A    map[string]any // action label + arguments
	O    []any          // expected outputs (set of records)
	Ev   []any          // expected lifecycle events of the step (specs with a ledger)
	TS   any            // target state
	SS   any            // source state
	Cls  string         // (action, outcome) class
}

// Graph is the edge dump of one TLC generation run.
type Graph struct {
	Meta    Meta
	Edges   []Edge
	Out     [][]int // node -> edge indexes
	Init    int
	Inits   []int
	Skipped int
	Nodes   int
	parent  []int // BFS tree: edge index reaching the node (-1 for Init)
}

func canon(v any) string {
	b, _ := json.Marshal(v) // maps are written with sorted keys

	return string(b)
}

// LoadGraph parses TLC's stdout: one `"META {...}"` line and many `"EDGE {...}"` lines.
func LoadGraph(path string) (*Graph, error) {
	f, err := os.Open(path)
	if err != nil {
		return nil, err
	}
	defer f.Close() //nolint:errcheck
	g := &Graph{Init: -1}
	ids := map[string]int{}
	declared := map[int]bool{}
	node := func(v any) int {
		k := canon(v)
		id, ok := ids[k]
		if !ok {
			id = len(ids)
			ids[k] = id
		}

		return id
	}
	sc := bufio.NewScanner(f)
	sc.Buffer(make([]byte, 1<<20), 1<<26)
	for sc.Scan() {
		line := sc.Text()
		if !strings.HasPrefix(line, "\"EDGE ") && !strings.HasPrefix(line, "\"META ") {
			continue
		}
		un, err := strconv.Unquote(line)
		if err != nil {
			return nil, fmt.Errorf("unquote: %w: %.80s", err, line)
		}
		if strings.HasPrefix(un, "META ") {
			if err := json.Unmarshal([]byte(un[5:]), &g.Meta); err != nil {
				return nil, fmt.Errorf("meta: %w", err)
			}

			continue
		}
		var raw struct {
			S any            `json:"s"`
			A map[string]any `json:"a"`
			O []any          `json:"o"`
			E []any          `json:"ev"`
			T any            `json:"t"`
			I bool           `json:"i"` // the source is an initial state (specs whose initial states can be re-entered)
		}
		if err := json.Unmarshal([]byte(un[5:]), &raw); err != nil {
			return nil, fmt.Errorf("edge: %w", err)
		}
		e := Edge{S: node(raw.S), T: node(raw.T), A: raw.A, O: raw.O, Ev: raw.E, TS: raw.T, SS: raw.S}
		if g.Init < 0 {
			g.Init = e.S // TLC's breadth-first search starts at Init
		}
		if raw.I {
			declared[e.S] = true
		}
		e.Cls = edgeClass(e, e.S != e.T)
		g.Edges = append(g.Edges, e)
	}
	if err := sc.Err(); err != nil {
		return nil, err
	}
	g.Nodes = len(ids)
	if len(declared) > 0 {
		g.Inits = []int{g.Init}
		for n := range declared {
			if n != g.Init {
				g.Inits = append(g.Inits, n)
			}
		}
		sort.Ints(g.Inits[1:])
	}
	g.Out = make([][]int, g.Nodes)
	for i, e := range g.Edges {
		g.Out[e.S] = append(g.Out[e.S], i)
	}
	g.BFS(nil)

	return g, nil
}

// BFS (re)computes the shortest-path tree from the initial states, never using an edge in bad.
func (g *Graph) BFS(bad map[int]bool) {
	g.parent = make([]int, g.Nodes)
	for i := range g.parent {
		g.parent[i] = -2
	}
	if g.Init < 0 {
		return
	}
	if g.Inits == nil {
		// initial states: the source of the first edge and every node no other node leads to
		indeg := make([]int, g.Nodes)
		for _, e := range g.Edges {
			if e.S != e.T {
				indeg[e.T]++
			}
		}
		g.Inits = []int{g.Init}
		for n := 0; n < g.Nodes; n++ {
			if indeg[n] == 0 && n != g.Init && len(g.Out[n]) > 0 {
				g.Inits = append(g.Inits, n)
			}
		}
	}
	q := []int{}
	for _, n := range g.Inits {
		g.parent[n] = -1
		q = append(q, n)
	}
	for len(q) > 0 {
		n := q[0]
		q = q[1:]
		for _, ei := range g.Out[n] {
			if bad[ei] {
				continue
			}
			t := g.Edges[ei].T
			if g.parent[t] == -2 {
				g.parent[t] = ei
				q = append(q, t)
			}
		}
	}
}

// edgeClass names the (action, guard outcome) class of an edge: the label, the interesting
// argument classes, the kinds of outputs and whether the state changed.
func edgeClass(e Edge, changed bool) string {
	parts := []string{fmt.Sprint(e.A["a"])}
	for _, f := range []string{"m", "k", "mut", "beyond", "kind", "attr", "fill", "reuse", "v", "proto", "proc", "from"} {
		if v, ok := e.A[f]; ok {
			parts = append(parts, f+"="+fmt.Sprint(v))
		}
	}
	outs := []string{}
	for _, o := range e.O {
		m, _ := o.(map[string]any)
		s := fmt.Sprint(m["k"])
		for _, f := range []string{"cls", "code", "via", "ok"} {
			if v, ok := m[f]; ok {
				s += ":" + fmt.Sprint(v)
			}
		}
		outs = append(outs, s)
	}
	sort.Strings(outs)
	parts = append(parts, strings.Join(outs, ","))
	if changed {
		parts = append(parts, "chg")
	}

	return strings.Join(parts, "|")
}

func (g *Graph) prefix(n int) []int {
	var rev []int
	for g.parent[n] >= 0 {
		ei := g.parent[n]
		rev = append(rev, ei)
		n = g.Edges[ei].S
	}
	for i, j := 0, len(rev)-1; i < j; i, j = i+1, j-1 {
		rev[i], rev[j] = rev[j], rev[i]
	}

	return rev
}

// Want selects the edges to walk: all of them (frac >= 1) or every class plus a seeded sample.
func (g *Graph) Want(seed int64, frac float64, perClass int) []bool {
	rng := rand.New(rand.NewSource(seed)) //nolint:gosec
	want := make([]bool, len(g.Edges))
	if frac >= 1 {
		for i := range want {
			want[i] = true
		}

		return want
	}
	byCls := map[string][]int{}
	for i, e := range g.Edges {
		byCls[e.Cls] = append(byCls[e.Cls], i)
	}
	classes := make([]string, 0, len(byCls))
	for c := range byCls {
		classes = append(classes, c)
	}
	sort.Strings(classes)
	for _, c := range classes {
		l := byCls[c]
		rng.Shuffle(len(l), func(i, j int) { l[i], l[j] = l[j], l[i] })
		for k := 0; k < perClass && k < len(l); k++ {
			want[l[k]] = true
		}
	}
	for i := range want {
		if !want[i] && rng.Float64() < frac {
			want[i] = true
		}
	}

	return want
}

// PlanFor returns paths (sequences of edge indexes starting at an initial state) that together
// cover the wanted edges not yet done, never passing through an edge in bad.
func (g *Graph) PlanFor(want []bool, done, bad map[int]bool, maxLen int) [][]int {
	g.BFS(bad)
	order := make([]int, 0)
	for i, w := range want {
		if w && !done[i] && !bad[i] && g.parent[g.Edges[i].S] != -2 {
			order = append(order, i)
		}
	}
	// deepest sources first: their prefixes cover many shallow edges on the way
	depth := make([]int, g.Nodes)
	for n := range depth {
		if g.parent[n] != -2 {
			depth[n] = len(g.prefix(n))
		}
	}
	sort.SliceStable(order, func(a, b int) bool { return depth[g.Edges[order[a]].S] > depth[g.Edges[order[b]].S] })
	covered := map[int]bool{}
	var paths [][]int
	for _, ei := range order {
		if covered[ei] {
			continue
		}
		p := append(g.prefix(g.Edges[ei].S), ei)
		for _, x := range p {
			covered[x] = true
		}
		// extend greedily through wanted, uncovered edges
		cur := g.Edges[ei].T
		for len(p) < maxLen {
			next := -1
			for _, oe := range g.Out[cur] {
				if want[oe] && !covered[oe] && !done[oe] && !bad[oe] {
					next = oe

					break
				}
			}
			if next < 0 {
				break
			}
			p = append(p, next)
			covered[next] = true
			cur = g.Edges[next].T
		}
		paths = append(paths, p)
	}

	return paths
}

// RandomWalks returns n seeded random paths of the given length from the initial states.
// Edges that change the state are preferred (probability 0.6) so that histories are rich:
// edge coverage alone reaches every state by its shortest prefix and would never revisit a
// state through a longer history, which is where stale timers and leftovers hide.
func (g *Graph) RandomWalks(seed int64, n, length int, bad map[int]bool) [][]int {
	rng := rand.New(rand.NewSource(seed ^ 0x5eed)) //nolint:gosec
	var paths [][]int
	for k := 0; k < n; k++ {
		cur := g.Inits[rng.Intn(len(g.Inits))]
		var p []int
		for len(p) < length {
			var chg, all []int
			for _, ei := range g.Out[cur] {
				if bad[ei] {
					continue
				}
				all = append(all, ei)
				if g.Edges[ei].T != cur {
					chg = append(chg, ei)
				}
			}
			if len(all) == 0 {
				break
			}
			pick := all[rng.Intn(len(all))]
			if len(chg) > 0 && rng.Float64() < 0.6 {
				pick = chg[rng.Intn(len(chg))]
			}
			p = append(p, pick)
			cur = g.Edges[pick].T
		}
		if len(p) > 0 {
			paths = append(paths, p)
		}
	}

	return paths
}

// Traces splits the edge list, taken in file order, into behaviours: consecutive edges whose
// source is the previous edge's target belong to one behaviour (output of `tlc -simulate`).
func (g *Graph) Traces() [][]int {
	isInit := map[int]bool{}
	for _, n := range g.Inits {
		isInit[n] = true
	}
	var paths [][]int
	var cur []int
	for i, e := range g.Edges {
		switch {
		case len(cur) > 0 && g.Edges[cur[len(cur)-1]].T == e.S:
			cur = append(cur, i)
		case isInit[e.S]:
			if len(cur) > 0 {
				paths = append(paths, cur)
			}
			cur = []int{i}
		default:
			// TLC evaluated the action constraint on a successor it did not take: not part of the behaviour
			g.Skipped++
		}
	}
	if len(cur) > 0 {
		paths = append(paths, cur)
	}

	return paths
}
