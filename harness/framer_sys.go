package verifx

import (
	"bytes"
	"crypto/sha256"
	"encoding/binary"
	"errors"
	"fmt"
	"io"
	"net"
	"os"
	"sync"
	"time"

	"github.com/pion/stun/v3"
	"github.com/pion/transport/v4"
	"github.com/pion/turn/v5/internal/client"
	"github.com/pion/turn/v5/internal/proto"
)

// segConn is a net.Conn whose reads return exactly the segments the harness feeds.
type segConn struct {
	mu     sync.Mutex
	cond   *sync.Cond
	segs   [][]byte
	closed bool
	wrote  bytes.Buffer
	ch     chan struct{}
	taken  int // bytes handed to readers so far
	touts  int // pending read-deadline expiries
}

// timeout makes the read that is waiting for bytes return os.ErrDeadlineExceeded once.
func (c *segConn) timeout() {
	c.mu.Lock()
	c.touts++
	c.mu.Unlock()
	c.ch <- struct{}{}
}

func newSegConn() *segConn { return &segConn{ch: make(chan struct{}, 1<<16)} }

func (c *segConn) feed(b []byte) {
	c.mu.Lock()
	c.segs = append(c.segs, append([]byte{}, b...))
	c.mu.Unlock()
	c.ch <- struct{}{}
}

func (c *segConn) Read(p []byte) (int, error) {
	for {
		c.mu.Lock()
		if len(c.segs) > 0 {
			n := copy(p, c.segs[0])
			c.taken += n
			if n < len(c.segs[0]) {
				c.segs[0] = c.segs[0][n:]
			} else {
				c.segs = c.segs[1:]
			}
			c.mu.Unlock()

			return n, nil
		}
		closed := c.closed
		if c.touts > 0 && !closed {
			c.touts--
			c.mu.Unlock()

			return 0, os.ErrDeadlineExceeded
		}
		c.mu.Unlock()
		if closed {
			return 0, io.EOF
		}
		<-c.ch // durably blocked until the next feed / close
	}
}

func (c *segConn) Write(p []byte) (int, error) {
	c.mu.Lock()
	defer c.mu.Unlock()
	c.wrote.Write(p)

	return len(p), nil
}

func (c *segConn) Close() error {
	c.mu.Lock()
	c.closed = true
	c.mu.Unlock()
	select {
	case c.ch <- struct{}{}:
	default:
	}

	return nil
}
func (c *segConn) LocalAddr() net.Addr             { return &net.TCPAddr{IP: net.IPv4(10, 0, 0, 1), Port: 3478} }
func (c *segConn) RemoteAddr() net.Addr            { return &net.TCPAddr{IP: net.IPv4(10, 0, 0, 2), Port: 4000} }
func (c *segConn) SetDeadline(time.Time) error     { return nil }
func (c *segConn) SetReadDeadline(time.Time) error { return nil }
func (c *segConn) SetWriteDeadline(time.Time) error {
	return nil
}

type fakeTCP struct {
	transport.TCPConn
	c *segConn
}

func (f fakeTCP) Read(p []byte) (int, error)         { return f.c.Read(p) }
func (f fakeTCP) Write(p []byte) (int, error)        { return f.c.Write(p) }
func (f fakeTCP) Close() error                       { return f.c.Close() }
func (f fakeTCP) LocalAddr() net.Addr                { return f.c.LocalAddr() }
func (f fakeTCP) RemoteAddr() net.Addr               { return f.c.RemoteAddr() }
func (f fakeTCP) SetDeadline(t time.Time) error      { return nil }
func (f fakeTCP) SetReadDeadline(t time.Time) error  { return nil }
func (f fakeTCP) SetWriteDeadline(t time.Time) error { return nil }

// stubClient satisfies client.Client for allocations the harness drives directly.
type stubClient struct{}

func (stubClient) WriteTo(b []byte, _ net.Addr) (int, error) { return len(b), nil }
func (stubClient) PerformTransaction(*stun.Message, net.Addr, bool) (client.TransactionResult, error) {
	return client.TransactionResult{}, nil
}
func (stubClient) OnDeallocated(net.Addr) {}

type frameRes struct {
	n    int
	data []byte
	err  error
	spin bool
}

// framerSys binds spec/Framer.tla to proto.STUNConn (mode "framer") and to
// client.TCPAllocation.BindConnection (mode "bindreply").
type framerSys struct {
	mode    string
	frames  [][]byte
	bytes   []byte
	fed     int
	conn    *segConn
	res     chan frameRes
	bindRet chan error
	done    chan struct{}
	got     int
	seed    int64

	tcpAlloc *client.TCPAllocation
}

func concreteFrame(seed int64, idx int, f map[string]any) []byte {
	fill := func(n int) []byte {
		out := make([]byte, 0, n+32)
		for c := 0; len(out) < n; c++ {
			h := sha256.Sum256([]byte(fmt.Sprintf("frame/%d/%d/%d", seed, idx, c)))
			out = append(out, h[:]...)
		}

		return out[:n]
	}
	l := toInt(f["len"])
	switch f["k"] {
	case "stun":
		b := fill(20 + l)
		binary.BigEndian.PutUint16(b[0:2], 0x0101)    // Binding success response
		binary.BigEndian.PutUint16(b[2:4], uint16(l)) //nolint:gosec
		binary.BigEndian.PutUint32(b[4:8], 0x2112A442)

		return b
	case "chan":
		pad := (l + 3) / 4 * 4
		b := fill(4 + pad)
		binary.BigEndian.PutUint16(b[0:2], uint16(toInt(f["num"]))) //nolint:gosec
		binary.BigEndian.PutUint16(b[2:4], uint16(l))               //nolint:gosec
		for i := 4 + l; i < len(b); i++ {
			b[i] = 0
		}
		if f["body"] == "cookie" && l >= 4 { // application data that begins with the STUN magic cookie
			binary.BigEndian.PutUint32(b[4:8], 0x2112A442)
		}

		return b
	default: // junk: neither a STUN cookie nor a channel number
		b := fill(24)
		b[0], b[1] = 0xC3, 0x99
		b[4] = 0x00

		return b
	}
}

func newFramerSys(meta Meta, seed int64, init any) (Sys, error) {
	st, _ := init.(map[string]any)
	s := &framerSys{mode: meta.Sys, conn: newSegConn(), res: make(chan frameRes, 64), seed: seed, bindRet: make(chan error, 1), done: make(chan struct{})}
	stream, _ := st["stream"].([]any)
	for i, f := range stream {
		fr := concreteFrame(seed, i, f.(map[string]any))
		if s.mode == "bindreply" && i == 0 {
			// a real ConnectionBind success response of the declared size
			l := toInt(f.(map[string]any)["len"])
			m := stun.MustBuild(stun.TransactionID, stun.NewType(stun.MethodConnectionBind, stun.ClassSuccessResponse))
			for len(m.Raw) < 20+l {
				pad := 20 + l - len(m.Raw) - 4
				m.Add(stun.AttrSoftware, bytes.Repeat([]byte{'x'}, pad))
			}
			fr = m.Raw
		}
		s.frames = append(s.frames, fr)
		s.bytes = append(s.bytes, fr...)
	}
	if s.mode == "framer" || s.mode == "framer1600" {
		sc := proto.NewSTUNConn(s.conn)
		go func() {
			buf := make([]byte, 70000) // one buffer reused across calls, as Server.readLoop does
			if s.mode == "framer1600" {
				buf = make([]byte, 1600) // the server's read loop (default inbound MTU): some frames are larger
			}
			zero := 0
			// a panic inside the packetiser is a result like any other (reported as an error of the read that raised it)
			defer func() {
				if p := recover(); p != nil {
					s.emit(frameRes{err: fmt.Errorf("PANIC in STUNConn.ReadFrom: %v", p)})
				}
			}()
			for {
				n, _, err := sc.ReadFrom(buf)
				r := frameRes{n: n, err: err}
				if n > 0 {
					r.data = append([]byte{}, buf[:min(n, len(buf))]...)
				}
				if errors.Is(err, os.ErrDeadlineExceeded) { // the deadline passed: report it, the stream goes on
					if !s.emit(r) {
						return
					}

					continue
				}
				if err == nil && n == 0 {
					zero++
					if zero >= 3 {
						r.spin = true
						if !s.emit(r) {
							return
						}

						return
					}
				}
				if !s.emit(r) {
					return
				}
				if err != nil {
					return
				}
			}
		}()
	} else {
		a := client.NewTCPAllocation(&client.AllocationConfig{
			Client: stubClient{}, Username: stun.NewUsername("u"), Realm: stun.NewRealm(realm), Nonce: stun.NewNonce("n"),
			Integrity: stun.NewShortTermIntegrity("pw"), Lifetime: 10 * time.Minute, Log: quietLogger{},
			RelayedAddr: &net.TCPAddr{IP: net.IPv4(10, 0, 0, 1), Port: 50000},
			ServerAddr:  &net.TCPAddr{IP: net.IPv4(10, 0, 0, 1), Port: 3478},
		})
		dc := &client.TCPConn{TCPConn: fakeTCP{c: s.conn}}
		s.tcpAlloc = a
		go func() { s.bindRet <- a.BindConnection(dc, proto.ConnectionID(7)) }()
	}

	return s, nil
}

// emit hands a result to the walker; false once the execution is over (a misframing packetiser can produce more
// results than anybody will read).
func (s *framerSys) emit(r frameRes) bool {
	select {
	case s.res <- r:
		return true
	case <-s.done:
		return false
	}
}

func (s *framerSys) Close() {
	select {
	case <-s.done:
	default:
		close(s.done)
	}
	_ = s.conn.Close()
	if s.tcpAlloc != nil {
		_ = s.tcpAlloc.Close()
	}
}

func (s *framerSys) Do(a map[string]any, wait func()) ([]Obs, error) {
	if a["a"] == "Timeout" {
		s.conn.timeout()
		wait()
		var obs []Obs
		for {
			select {
			case r := <-s.res:
				obs = append(obs, Obs{"k": "frame", "n": r.n, "data": r.data, "err": r.err, "spin": r.spin})
			default:
				return obs, nil
			}
		}
	}
	if a["a"] != "Feed" {
		return nil, fmt.Errorf("unknown framer action %v", a["a"])
	}
	k := toInt(a["k"])
	if s.fed+k > len(s.bytes) {
		return nil, errors.New("harness: feed beyond the stream")
	}
	s.conn.feed(s.bytes[s.fed : s.fed+k])
	s.fed += k
	wait()
	var obs []Obs
	if s.mode == "bindreply" {
		select {
		case err := <-s.bindRet:
			obs = append(obs, Obs{"k": "bindret", "err": err})
		default:
		}

		return obs, nil
	}
	for {
		select {
		case r := <-s.res:
			obs = append(obs, Obs{"k": "frame", "n": r.n, "data": r.data, "err": r.err, "spin": r.spin})
		default:
			return obs, nil
		}
	}
}

func (s *framerSys) Check(e Edge, obs []Obs) []Mismatch {
	var ms []Mismatch
	if s.mode == "bindreply" {
		wantRet := false
		for _, x := range e.O {
			if toInt(x) == 1 {
				wantRet = true
			}
		}
		switch {
		case wantRet && len(obs) == 0:
			ms = append(ms, Mismatch{"framer", "BindConnection has not returned although the whole reply has arrived"})
		case !wantRet && len(obs) > 0 && s.got == 0:
			ms = append(ms, Mismatch{"framer", fmt.Sprintf("BindConnection returned (%v) before the whole reply arrived (%d of %d bytes)", obs[0]["err"], s.fed, len(s.frames[0]))})
		case wantRet && len(obs) > 0:
			if err, _ := obs[0]["err"].(error); err != nil {
				ms = append(ms, Mismatch{"framer", fmt.Sprintf("BindConnection failed on a success reply split at %v: %v", e.A["k"], err)})
			}
		}
		// "any data after [the reply] belongs to the user": exactly the reply's bytes may have been taken
		s.conn.mu.Lock()
		taken := s.conn.taken
		s.conn.mu.Unlock()
		if taken > len(s.frames[0]) {
			ms = append(ms, Mismatch{"framer", fmt.Sprintf("BindConnection took %d bytes from the data connection, the reply has %d: bytes that belong to the application were swallowed", taken, len(s.frames[0]))})
		}
		if len(obs) > 0 {
			s.got = 1
		}

		return ms
	}
	i := 0
	for _, x := range e.O {
		idx := toInt(x)
		if i >= len(obs) {
			if idx == 0 {
				ms = append(ms, Mismatch{"framer", "bytes that cannot begin a frame did not yield an error"})
			} else {
				ms = append(ms, Mismatch{"framer", fmt.Sprintf("frame %d (%d bytes) complete after %d bytes fed but not returned", idx, len(s.frames[idx-1]), s.fed)})
			}

			break
		}
		o := obs[i]
		i++
		err, _ := o["err"].(error)
		if idx == -1 {
			if !errors.Is(err, os.ErrDeadlineExceeded) {
				ms = append(ms, Mismatch{"framer", fmt.Sprintf("the read deadline passed while a frame was incomplete: n=%v err=%v instead of the timeout", o["n"], err)})
			}

			continue
		}
		if idx == 0 {
			if err == nil {
				ms = append(ms, Mismatch{"framer", fmt.Sprintf("bytes that cannot begin a frame were returned as data (n=%v)", o["n"])})
			}

			continue
		}
		want := s.frames[idx-1]
		data, _ := o["data"].([]byte)
		switch {
		case err != nil:
			ms = append(ms, Mismatch{"framer", fmt.Sprintf("frame %d: error %v instead of the frame", idx, err)})
		case toInt(o["n"]) != len(want):
			ms = append(ms, Mismatch{"framer", fmt.Sprintf("frame %d: returned %v bytes, the frame has %d", idx, o["n"], len(want))})
		case !bytes.Equal(data, want[:min(len(want), len(data))]) || (len(data) < len(want) && s.mode != "framer1600"):
			ms = append(ms, Mismatch{"framer", fmt.Sprintf("frame %d: bytes differ from what was sent", idx)})
		}
	}
	for ; i < len(obs); i++ {
		o := obs[i]
		if sp, _ := o["spin"].(bool); sp {
			ms = append(ms, Mismatch{"framer.spin", "ReadFrom keeps returning zero-length frames without consuming input (busy loop)"})
		} else {
			ms = append(ms, Mismatch{"framer", fmt.Sprintf("unexpected result: n=%v err=%v (nothing was complete)", o["n"], o["err"])})
		}
	}

	return ms
}
