package verifx

import (
	"bytes"
	"crypto/hmac"
	"crypto/sha1" //nolint:gosec
	"encoding/base64"
	"fmt"
	"math"
	"net"
	"strconv"
	"strings"
	"sync"
	"sync/atomic"
	"time"

	"github.com/pion/stun/v3"
	turn "github.com/pion/turn/v5"
	"github.com/pion/turn/v5/internal/proto"
)

// ltcredSys binds spec/LtCred.tla to the real credential generators and auth handlers, both
// directly and end-to-end through a real server.
type ltcredSys struct {
	kind       string
	secret     string
	handler    turn.AuthHandler
	user, pass string
	net        *MemNet
	srv        *turn.Server
	listen     *MemConn
	nonce      string
	nport      int
}

func macPw(secret, username string) string {
	m := hmac.New(sha1.New, []byte(secret))
	_, _ = m.Write([]byte(username))

	return base64.StdEncoding.EncodeToString(m.Sum(nil))
}

func newLtcredSys(_ Meta, seed int64, init any) (Sys, error) {
	st, _ := init.(map[string]any)
	s := &ltcredSys{kind: st["kind"].(string), secret: fmt.Sprintf(" secret-%d\n", seed), net: NewMemNet(), nport: 41000} // (white space is part of a secret)
	if seed%2 == 1 {
		// a secret longer than the 64-byte block of HMAC-SHA1 (such keys are hashed first): "another secret" of the
		// mutation classes then shares its first 77 bytes with this one
		s.secret = fmt.Sprintf(" secret-%d-%s\n", seed, strings.Repeat("k", 66))
	}
	// the handler is built now; credentials are minted later (a handler that remembered its
	// construction time instead of reading the clock would show)
	switch s.kind {
	case "lt":
		s.handler = turn.NewLongTermAuthHandler(s.secret, quietLogger{})
	case "rest":
		s.handler = turn.LongTermTURNRESTAuthHandler(s.secret, quietLogger{})
	default:
		return nil, fmt.Errorf("unknown kind %q", s.kind)
	}
	s.listen = s.net.MustListen(&net.UDPAddr{IP: net.IPv4(10, 0, 0, 1).To4(), Port: 3478})
	w := &World{Net: s.net}
	gen := &memGen{w: w, ip4: net.IPv4(10, 0, 0, 1).To4(), ip6: net.ParseIP("fd00::1"), Conns: map[string]*MemConn{}}
	srv, err := turn.NewServer(turn.ServerConfig{
		Realm: realm, AuthHandler: s.handler, LoggerFactory: quietLoggerFactory{},
		PacketConnConfigs: []turn.PacketConnConfig{{PacketConn: s.listen, RelayAddressGenerator: gen}},
	})
	s.srv = srv

	return s, err
}

func (s *ltcredSys) Close() { _ = s.srv.Close() }

func (s *ltcredSys) Do(a map[string]any, wait func()) ([]Obs, error) {
	time.Sleep(time.Microsecond)
	switch a["a"] {
	case "Mint":
		var err error
		d := time.Duration(toInt(a["dur"])) * 100 * time.Millisecond // (the model counts tenths of a second)
		if toInt(a["dur"]) == -2000000000 {
			d = time.Duration(math.MinInt64) // the boundary of the duration domain
		}
		if s.kind == "lt" {
			s.user, s.pass, err = turn.GenerateLongTermCredentials(s.secret, d)
		} else {
			s.user, s.pass, err = turn.GenerateLongTermTURNRESTCredentials(s.secret, a["user"].(string), d)
		}

		return nil, err
	case "Tick":
		time.Sleep(time.Duration(toInt(a["d"])) * 100 * time.Millisecond)

		return nil, nil
	case "Present":
		u, p := s.mutate(a["mut"].(string))
		_, key, ok := s.handler(&turn.RequestAttributes{Username: u, Realm: realm,
			SrcAddr: &net.UDPAddr{IP: net.IPv4(10, 0, 0, 7), Port: 7}})
		direct := ok && bytes.Equal(key, turn.GenerateAuthKey(u, realm, p))
		// the verdict does not depend on the method of the request that is being authenticated ...
		methods := ""
		for _, m := range []stun.Method{stun.MethodAllocate, stun.MethodRefresh, stun.MethodCreatePermission, stun.MethodChannelBind, stun.MethodConnect} {
			_, k2, ok2 := s.handler(&turn.RequestAttributes{Username: u, Realm: realm, Method: m,
				SrcAddr: &net.UDPAddr{IP: net.IPv4(10, 0, 0, 7), Port: 7}})
			if (ok2 && bytes.Equal(k2, turn.GenerateAuthKey(u, realm, p))) != direct {
				methods += m.String() + " "
			}
		}
		// ... and the key that was handed out stays what it was when the handler is asked about somebody else
		kept := true
		if ok {
			before := append([]byte{}, key...)
			other := fmt.Sprintf("%d:somebody-else", time.Now().Unix()+3600)
			if s.kind == "lt" {
				other = fmt.Sprintf("%d", time.Now().Unix()+3601)
			}
			_, _, _ = s.handler(&turn.RequestAttributes{Username: other, Realm: realm, SrcAddr: &net.UDPAddr{IP: net.IPv4(10, 0, 0, 8), Port: 8}})
			kept = bytes.Equal(before, key)
		}
		e2e, err := s.allocate(u, p, wait)
		if err != nil {
			return nil, err
		}
		// a server calls one handler from all its listener and connection goroutines: the answer for a user name
		// is the same whoever else is being authenticated at that moment
		par := s.parallelSame()

		return []Obs{{"k": "verdict", "ok": direct, "e2e": e2e, "user": u, "par": par, "methods": methods, "kept": kept}}, nil
	}

	return nil, fmt.Errorf("unknown action %v", a["a"])
}

// parallelSame: six goroutines ask the handler about six different (unexpired, well-formed) user names at
// the same time, 40 times each; every answer must be the one the handler gives when asked alone.
func (s *ltcredSys) parallelSame() (same bool) {
	names := make([]string, 6)
	ref := make([][]byte, 6)
	ask := func(u string) (k []byte, ok bool) {
		defer func() {
			if recover() != nil {
				k, ok = nil, false
			}
		}()
		_, k, ok = s.handler(&turn.RequestAttributes{Username: u, Realm: realm, SrcAddr: &net.UDPAddr{IP: net.IPv4(10, 0, 0, 7), Port: 7}})

		return k, ok
	}
	for i := range names {
		names[i] = fmt.Sprintf("%d:par-user-%d", time.Now().Unix()+3600+int64(i), i)
		if s.kind == "lt" {
			names[i] = fmt.Sprintf("%d", time.Now().Unix()+3600+int64(i))
		}
		ref[i], _ = ask(names[i])
	}
	var wg sync.WaitGroup
	var bad atomic.Int32
	for i := range names {
		i := i
		wg.Add(1)
		go func() {
			defer wg.Done()
			for n := 0; n < 40; n++ {
				if k, ok := ask(names[i]); !ok || !bytes.Equal(k, ref[i]) {
					bad.Add(1)
				}
			}
		}()
	}
	wg.Wait()

	return bad.Load() == 0
}

func (s *ltcredSys) ts() (int64, string) {
	f := strings.SplitN(s.user, ":", 2)
	t, _ := strconv.ParseInt(f[0], 10, 64)
	rest := ""
	if len(f) > 1 {
		rest = ":" + f[1]
	}

	return t, rest
}

func (s *ltcredSys) mutate(mut string) (string, string) {
	u, p := s.user, s.pass
	t, rest := s.ts()
	switch mut {
	case "tsPlus1":
		u = strconv.FormatInt(t+1, 10) + rest
	case "tsMinus1":
		u = strconv.FormatInt(t-1, 10) + rest
	case "nonNumeric":
		d := strconv.FormatInt(t, 10)
		u = d[:len(d)-1] + "x" + rest
	case "emptyUser":
		u = ""
	case "leadingPlus":
		u = "+" + u
	case "leadingSpace":
		u = " " + u
	case "extraColon":
		u += ":x"
	case "pwOtherSecret":
		p = macPw(s.secret+"-other", u)
	case "pwTrimmedSecret": // another secret: this one without its surrounding white space
		p = macPw(strings.TrimSpace(s.secret), u)
	case "pwOtherName":
		p = macPw(s.secret, strconv.FormatInt(t+3600, 10)+rest)
	case "pwFlip":
		b := []byte(p)
		if b[3] == 'A' {
			b[3] = 'B'
		} else {
			b[3] = 'A'
		}
		p = string(b)
	case "pwEmpty":
		p = ""
	case "hexTs": // the same instant written as a Go integer literal, with the password such a username would have
		u = fmt.Sprintf("0x%x", t) + rest
		p = macPw(s.secret, u)
	case "underscoreTs":
		d := strconv.FormatInt(t, 10)
		u = d[:1] + "_" + d[1:] + rest
		p = macPw(s.secret, u)
	case "octalTs":
		u = fmt.Sprintf("0o%o", t) + rest
		p = macPw(s.secret, u)
	case "expTs":
		u = strconv.FormatInt(t/10, 10) + "e1" + rest
		p = macPw(s.secret, u)
	case "userSwap":
		u = strconv.FormatInt(t, 10) + ":mallory"
	case "restFormKeyed": // "<exp>:x" with the password derived from the secret for exactly that name
		u = strconv.FormatInt(t, 10) + ":x"
		p = macPw(s.secret, u)
	}

	return u, p
}

// allocate sends an Allocate signed with (u, p) from a fresh client address through the real
// server and reports whether it was answered with success.
func (s *ltcredSys) allocate(u, p string, wait func()) (bool, error) {
	s.nport++
	c := s.net.MustListen(&net.UDPAddr{IP: net.IPv4(10, 0, 0, 50).To4(), Port: s.nport})
	defer c.Close() //nolint:errcheck
	if s.nonce == "" {
		m := stun.MustBuild(stun.TransactionID, stun.NewType(stun.MethodAllocate, stun.ClassRequest),
			proto.RequestedTransport{Protocol: proto.ProtoUDP})
		_, _ = c.WriteTo(m.Raw, s.listen.addr)
		wait()
		pk := c.Drain()
		if len(pk) != 1 {
			return false, fmt.Errorf("no challenge")
		}
		r := &stun.Message{Raw: pk[0].Data}
		if err := r.Decode(); err != nil {
			return false, err
		}
		var n stun.Nonce
		if err := n.GetFrom(r); err != nil {
			return false, err
		}
		s.nonce = n.String()
	}
	m, err := stun.Build(stun.TransactionID, stun.NewType(stun.MethodAllocate, stun.ClassRequest),
		proto.RequestedTransport{Protocol: proto.ProtoUDP}, stun.NewUsername(u), stun.NewRealm(realm),
		stun.NewNonce(s.nonce), stun.NewLongTermIntegrity(u, realm, p))
	if err != nil {
		return false, err
	}
	_, _ = c.WriteTo(m.Raw, s.listen.addr)
	wait()
	pk := c.Drain()
	if len(pk) != 1 {
		return false, nil
	}
	r := &stun.Message{Raw: pk[0].Data}
	if err := r.Decode(); err != nil {
		return false, err
	}
	ok := r.Type.Class == stun.ClassSuccessResponse
	if ok { // release it again
		d := stun.MustBuild(stun.TransactionID, stun.NewType(stun.MethodRefresh, stun.ClassRequest), proto.Lifetime{},
			stun.NewUsername(u), stun.NewRealm(realm), stun.NewNonce(s.nonce), stun.NewLongTermIntegrity(u, realm, p))
		_, _ = c.WriteTo(d.Raw, s.listen.addr)
		wait()
	}

	return ok, nil
}

func (s *ltcredSys) Check(e Edge, obs []Obs) []Mismatch {
	for _, x := range e.O {
		m, _ := x.(map[string]any)
		if m["k"] != "verdict" {
			continue
		}
		want, _ := m["ok"].(bool)
		if len(obs) != 1 {
			return []Mismatch{{"harness", "no verdict observed"}}
		}
		var ms []Mismatch
		if got, _ := obs[0]["ok"].(bool); got != want {
			ms = append(ms, Mismatch{"ltcred", fmt.Sprintf("%s handler: (%q) mutation %v, %v s before expiry: authenticates=%v, spec %v",
				s.kind, obs[0]["user"], e.A["mut"], e.A["left"], got, want)})
		}
		if got, _ := obs[0]["e2e"].(bool); got != want {
			ms = append(ms, Mismatch{"ltcred", fmt.Sprintf("%s handler end-to-end: Allocate signed with (%q) mutation %v, %v s before expiry: success=%v, spec %v",
				s.kind, obs[0]["user"], e.A["mut"], e.A["left"], got, want)})
		}
		if ms2, _ := obs[0]["methods"].(string); ms2 != "" {
			ms = append(ms, Mismatch{"ltcred", fmt.Sprintf("%s handler: (%q) mutation %v, %v s before expiry: the verdict for a request of method %sdiffers from the one for the same credentials without a method",
				s.kind, obs[0]["user"], e.A["mut"], e.A["left"], ms2)})
		}
		if kept, _ := obs[0]["kept"].(bool); !kept {
			ms = append(ms, Mismatch{"ltcred", s.kind + " handler: the key it returned for one user changed when it was asked about another user"})
		}
		if par, _ := obs[0]["par"].(bool); !par {
			ms = append(ms, Mismatch{"ltcred", s.kind + " handler: asked about six user names by six goroutines at once, it gave answers that differ from the ones it gives when asked alone"})
		}

		return ms
	}

	return nil
}
