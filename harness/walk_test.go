package verifx

import (
	"encoding/json"
	"fmt"
	"os"
	"regexp"
	"runtime"
	"slices"
	"sort"
	"strconv"
	"strings"
	"sync"
	"testing"
	"testing/synctest"
	"time"
)

// WalkResult is what TestWalk reports to the check driver.
type WalkResult struct {
	Family      string         `json:"family"`
	Prop        string         `json:"prop"`
	Seed        int64          `json:"seed"`
	Variant     string         `json:"variant"`
	Nodes       int            `json:"nodes"`
	EdgesTotal  int            `json:"edges_total"`
	EdgesWalked int            `json:"edges_walked"`
	EdgesDist   int            `json:"edges_distinct"`
	Paths       int            `json:"paths"`
	Steps       int            `json:"steps"`
	Classes     map[string]int `json:"classes"`
	ClassesAll  int            `json:"classes_in_graph"`
	Violations  []Violation    `json:"violations"`
	Abandoned   []Violation    `json:"abandoned"` // divergences that belong to other properties
	Known       map[string]int `json:"known"`     // known findings met (by id)
	Samples     []any          `json:"samples"`
	WallS       float64        `json:"wall_s"`
}

// Violation is one divergence of the code from the spec.
type Violation struct {
	Path     []map[string]any `json:"path"`
	Step     int              `json:"step"`
	Mismatch []Mismatch       `json:"mismatch"`
	Replay   string           `json:"replay,omitempty"`
	Expected any              `json:"expected_out"`
	Observed any              `json:"observed_out"`
}

func envInt(k string, def int64) int64 {
	if v := os.Getenv(k); v != "" {
		if n, err := strconv.ParseInt(v, 10, 64); err == nil {
			return n
		}
	}

	return def
}

// walkPath replays one path on a fresh system.  Returns the index of the first diverging step
// (or -1) with its mismatches.
func walkPath(t *testing.T, g *Graph, seed int64, path []Edge) (int, []Mismatch, any, any, int) {
	return walkPathK(t, g, seed, path, nil)
}

// knownFinding is one entry of /verif/known_findings.json with status "known".
type knownFinding struct {
	ID        string   `json:"id"`
	Property  string   `json:"property"`
	Also      []string `json:"also"`
	Status    string   `json:"status"`
	Resync    bool     `json:"resync"` // the harness system re-aligns itself with the spec state, the path can go on
	Signature struct {
		AllOf []string `json:"all_of"`
	} `json:"signature"`
}

func loadKnown(prop string) []knownFinding {
	b, err := os.ReadFile(os.Getenv("VERIF_KNOWN"))
	if err != nil {
		return nil
	}
	var f struct {
		Findings []knownFinding `json:"findings"`
	}
	if json.Unmarshal(b, &f) != nil {
		return nil
	}
	var out []knownFinding
	for _, k := range f.Findings {
		if k.Status == "known" && (k.Property == prop || slices.Contains(k.Also, prop)) && k.Resync {
			out = append(out, k)
		}
	}

	return out
}

func matchKnown(ks []knownFinding, mm []Mismatch, a map[string]any) string {
	text := canon(map[string]any{"detail": mm, "action": a})
	for _, k := range ks {
		all := len(k.Signature.AllOf) > 0
		for _, pat := range k.Signature.AllOf {
			if ok, _ := regexp.MatchString(pat, text); !ok {
				all = false
			}
		}
		if all {
			return k.ID
		}
	}

	return ""
}

var knownHits = map[string]int{}

// onFatal is set by TestWalk: record the divergence, write the result file, exit.
var onFatal func(path []Edge, ms []Mismatch)

// watchdog: a path that takes more than VERIF_WATCHDOG real seconds (steps take microseconds) means
// some goroutine is stuck outside the reach of the virtual clock (a leaked lock, a busy loop):
// dump all stacks, flush what is known and exit.  The check driver turns that into a verdict.
var (
	wdMu      sync.Mutex
	wdPath    []Edge
	wdStarted time.Time
	wdFlush   func(hang string)
)

func startWatchdog() {
	limit := time.Duration(envInt("VERIF_WATCHDOG", 30)) * time.Second
	go func() {
		for {
			time.Sleep(time.Second)
			wdMu.Lock()
			stuck := wdPath != nil && time.Since(wdStarted) > limit
			path := wdPath
			wdMu.Unlock()
			if stuck {
				buf := make([]byte, 1<<20)
				n := runtime.Stack(buf, true)
				fmt.Printf("WATCHDOG: a replay step did not finish within %v of real time\nPATH: %s\n%s\n", limit, canon(actionsOf(path)), buf[:n])
				if wdFlush != nil {
					wdFlush(string(buf[:n]))
				}
				os.Exit(3)
			}
		}
	}()
}

// markProgress / startWatchdogFor give the other engines the same real-time watchdog.
func markProgress(label string) {
	wdMu.Lock()
	if label == "" {
		wdPath = nil
	} else {
		wdPath, wdStarted = []Edge{{A: map[string]any{"a": label}}}, time.Now()
	}
	wdMu.Unlock()
}

func startWatchdogFor(*testing.T) { startWatchdog() }

func walkPathK(t *testing.T, g *Graph, seed int64, path []Edge, known []knownFinding) (int, []Mismatch, any, any, int) {
	t.Helper()
	wdMu.Lock()
	wdPath, wdStarted = path, time.Now()
	wdMu.Unlock()
	if out := os.Getenv("VERIF_OUT"); out != "" {
		// what is being replayed right now, for the parent process should this one die
		b, _ := json.Marshal(map[string]any{"engine": "walk", "family": os.Getenv("VERIF_FAMILY"), "prop": os.Getenv("VERIF_PROP"),
			"seed": seed, "meta": g.Meta, "path": path})
		_ = os.WriteFile(out+".cur", b, 0o644)
	}
	defer func() {
		wdMu.Lock()
		wdPath = nil
		wdMu.Unlock()
	}()
	step := -1
	var mm []Mismatch
	var exp, got any
	steps := 0
	synctest.Test(t, func(t *testing.T) {
		syncWait = synctest.Wait
		sys, err := NewSys(g.Meta, seed, path[0].SS)
		if err != nil {
			t.Fatalf("system: %v", err)
		}
		defer func() {
			sys.Close()
			synctest.Wait()
		}()
		for i, e := range path {
			obs, err := sys.Do(e.A, synctest.Wait)
			if err != nil {
				step, mm = i, []Mismatch{{"harness", err.Error()}}

				return
			}
			steps++
			ms := sys.Check(e, obs)
			if f, ok := sys.(interface{ Finish(func()) []Mismatch }); ok && i == len(path)-1 && len(ms) == 0 {
				ms = f.Finish(synctest.Wait) // end-of-path obligations (teardown, drain)
			}
			if len(ms) > 0 && softUnowned(ms, e.A) {
				continue // an observation another property owns, which leaves the system where the specification is: go on
			}
			if len(ms) > 0 {
				if id := matchKnown(known, ms, e.A); id != "" {
					knownHits[id]++ // a listed finding whose effect the harness has undone: go on

					continue
				}
				step, mm, exp, got = i, ms, e.O, obs
				if st, ok := sys.(interface{ Stuck(func()) string }); ok && onFatal != nil {
					if why := st.Stuck(synctest.Wait); why != "" {
						// goroutines that can never finish: the bubble cannot be left in an orderly way
						ms = append(ms, Mismatch{"txn.hang", why})
						onFatal(path[:i+1], ms)
					}
				}
				for _, m := range ms {
					if m.Kind == "locks" && onFatal != nil {
						// a lock is still held: tearing the system down would block for ever on it, and
						// the virtual clock cannot see a mutex wait; report and leave the process now
						onFatal(path[:i+1], ms)
					}
				}

				return
			}
		}
	})

	return step, mm, exp, got, steps
}

// walkProp is the property the running walk decides (VERIF_PROP), walkFamily the family of behaviours (VERIF_FAMILY).
var walkProp, walkFamily string

// softUnowned: every mismatch is of a kind that does not move the system away from the specification's state (a
// finished transaction left in the client's table) and belongs to another property than the one being decided.  The
// path goes on, so that what such a leftover leads to (a late response that blocks the inbound path) is still reached.
func softUnowned(ms []Mismatch, a map[string]any) bool {
	if walkProp == "" || walkProp == "ALL" {
		return false
	}
	for _, m := range ms {
		if m.Kind != "txn.table" || OwnedBy(m, a, walkProp) {
			return false
		}
	}

	return true
}

// TestWalk is Engine A: the lock-step walk of TLC's state graph on the real server.
//
//	VERIF_EDGES  TLC output with META and EDGE lines      VERIF_OUT   result file
//	VERIF_PROP   property whose pinned observables decide  VERIF_SEED  seed
//	VERIF_FRAC   fraction of edges to sample (>=1: all)    VERIF_REPLAY replay one recorded path
func TestWalk(t *testing.T) {
	edges := os.Getenv("VERIF_EDGES")
	if edges == "" {
		t.Skip("VERIF_EDGES not set")
	}
	start := time.Now()
	seed := envInt("VERIF_SEED", 1)
	prop := os.Getenv("VERIF_PROP")
	walkProp = prop
	walkFamily = os.Getenv("VERIF_FAMILY")
	frac := 1.0
	if v := os.Getenv("VERIF_FRAC"); v != "" {
		frac, _ = strconv.ParseFloat(v, 64)
	}
	g, err := LoadGraph(edges)
	if err != nil {
		t.Fatalf("load: %v", err)
	}
	if len(g.Edges) == 0 {
		t.Fatalf("no edges in %s", edges)
	}
	res := WalkResult{
		Family: os.Getenv("VERIF_FAMILY"), Prop: prop, Seed: seed, Nodes: g.Nodes, EdgesTotal: len(g.Edges),
		Classes: map[string]int{}, Variant: Variants[int(uint64(seed)%uint64(len(Variants)))].Name,
	}
	all := map[string]bool{}
	for _, e := range g.Edges {
		all[e.Cls] = true
	}
	res.ClassesAll = len(all)
	known := loadKnown(prop)
	startWatchdog()
	want := g.Want(seed, frac, int(envInt("VERIF_PERCLASS", 3)))
	if os.Getenv("VERIF_MODE") == "traces" {
		// the file holds behaviours printed by `tlc -simulate`: consecutive edges chain; a new
		// behaviour starts where an edge's source is not the previous edge's target
		for i := range want {
			want[i] = false
		}
	}
	walked := map[int]bool{}
	bad := map[int]bool{} // edges on which the code diverged: later rounds route around them
	maxViol := int(envInt("VERIF_MAXVIOL", 5))
	outDir := os.Getenv("VERIF_REPLAYDIR")
	writeOut := func() {
		res.Known = knownHits
		res.EdgesDist = len(walked)
		res.WallS = time.Since(start).Seconds()
		if out := os.Getenv("VERIF_OUT"); out != "" {
			b, _ := json.MarshalIndent(res, "", " ")
			_ = os.WriteFile(out, b, 0o644)
		}
	}
	record := func(es []Edge, mm []Mismatch, exp, got any) bool {
		step := len(es) - 1
		v := Violation{Path: actionsOf(es), Step: step, Mismatch: mm, Expected: exp, Observed: fmtObs(got)}
		owned := false
		for _, m := range mm {
			if m.Kind == "harness" || OwnedBy(m, es[step].A, prop) {
				owned = true
			}
		}
		if !owned {
			if len(res.Abandoned) < 20 {
				res.Abandoned = append(res.Abandoned, v)
			}

			return false
		}
		if outDir != "" {
			_ = os.MkdirAll(outDir, 0o755)
			v.Replay = fmt.Sprintf("%s/%s-%s-seed%d-%d.json", outDir, prop, res.Family, seed, len(res.Violations))
			b, _ := json.MarshalIndent(map[string]any{
				"engine": "walk", "family": res.Family, "prop": prop, "seed": seed, "meta": g.Meta,
				"path": es, "mismatch": mm,
			}, "", " ")
			_ = os.WriteFile(v.Replay, b, 0o644)
		}
		res.Violations = append(res.Violations, v)

		return true
	}
	onFatal = func(es []Edge, mm []Mismatch) {
		record(es, mm, nil, nil)
		writeOut()
		fmt.Printf("FATAL divergence (a lock is held at a quiescent point, or goroutines that can never finish): %v\n", mm)
		os.Exit(4) // (the testing package forbids exit status 0 from inside a test)
	}
	wdFlush = func(stacks string) {
		wdMu.Lock()
		p := wdPath
		wdMu.Unlock()
		kind := "hang"
		if strings.Contains(stacks, "sync.Mutex.Lock") || strings.Contains(stacks, "sync.RWMutex") {
			kind = "hang.lock"
		}
		record(p, []Mismatch{{kind, "a replay step did not finish in real time: goroutines are stuck outside the virtual clock (see the WATCHDOG dump)"}}, nil, nil)
		writeOut()
	}
	pi := 0
rounds:
	for round := 0; round < 7; round++ {
		paths := g.PlanFor(want, walked, bad, int(envInt("VERIF_MAXLEN", 48)))
		if os.Getenv("VERIF_MODE") == "traces" {
			if round > 0 {
				break
			}
			paths = g.Traces()
		} else if round == 6 || (len(paths) == 0 && round < 6) {
			// last round: seeded random walks (long histories through already covered edges)
			paths = g.RandomWalks(seed, int(envInt("VERIF_RANDWALKS", 300)), int(envInt("VERIF_RANDLEN", 40)), bad)
			round = 6
		}
		if len(paths) == 0 {
			break
		}
		for _, p := range paths {
			es := make([]Edge, len(p))
			for i, ei := range p {
				es[i] = g.Edges[ei]
			}
			step, mm, exp, got, steps := walkPathK(t, g, seed, es, known)
			res.Paths++
			res.Steps += steps
			upto := len(p)
			if step >= 0 {
				upto = step
			}
			for i := 0; i < upto; i++ {
				res.EdgesWalked++
				if !walked[p[i]] {
					walked[p[i]] = true
					res.Classes[es[i].Cls]++
				}
			}
			if pi < 3 {
				res.Samples = append(res.Samples, actionsOf(es))
			}
			pi++
			if step < 0 {
				continue
			}
			bad[p[step]] = true
			record(es[:step+1], mm, exp, got)
			if len(res.Violations) >= maxViol {
				break rounds
			}
		}
	}
	writeOut()
	t.Logf("family=%s prop=%s seed=%d variant=%s nodes=%d edges=%d distinct-walked=%d paths=%d steps=%d classes=%d/%d violations=%d abandoned=%d",
		res.Family, prop, seed, res.Variant, g.Nodes, len(g.Edges), res.EdgesDist, res.Paths, res.Steps,
		len(res.Classes), res.ClassesAll, len(res.Violations), len(res.Abandoned))
	for _, v := range res.Violations {
		t.Logf("DIVERGENCE at step %d of %s: %v", v.Step, canon(v.Path), v.Mismatch)
	}
}

// TestReplay re-runs one recorded path (VERIF_REPLAY) and reports whether it still diverges.
func TestReplay(t *testing.T) {
	file := os.Getenv("VERIF_REPLAY")
	if file == "" {
		t.Skip("VERIF_REPLAY not set")
	}
	b, err := os.ReadFile(file)
	if err != nil {
		t.Fatal(err)
	}
	var r struct {
		Prop string `json:"prop"`
		Seed int64  `json:"seed"`
		Meta Meta   `json:"meta"`
		Path []Edge `json:"path"`
	}
	if err := json.Unmarshal(b, &r); err != nil {
		t.Fatal(err)
	}
	g := &Graph{Meta: r.Meta}
	step, mm, exp, got, _ := walkPath(t, g, r.Seed, r.Path)
	if step < 0 {
		fmt.Println("REPLAY: no divergence")

		return
	}
	fmt.Printf("REPLAY: divergence at step %d: %v\n expected out: %s\n observed out: %s\n", step, mm, canon(exp), canon(fmtObs(got)))
	fmt.Printf("VIOLATION property=%s replay=%s\n", r.Prop, file)
}

func actionsOf(es []Edge) []map[string]any {
	out := make([]map[string]any, len(es))
	for i, e := range es {
		out[i] = e.A
	}

	return out
}

func fmtObs(v any) any {
	obs, ok := v.([]Obs)
	if !ok {
		return v
	}
	out := []map[string]any{}
	for _, o := range obs {
		m := map[string]any{}
		keys := make([]string, 0, len(o))
		for k := range o {
			keys = append(keys, k)
		}
		sort.Strings(keys)
		for _, k := range keys {
			m[k] = fmt.Sprint(o[k])
		}
		out = append(out, m)
	}

	return out
}
