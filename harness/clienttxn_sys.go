package verifx

import (
	"bytes"
	"crypto/sha256"
	"errors"
	"fmt"
	"net"
	"sort"
	"strconv"
	"sync"
	"time"

	"github.com/pion/stun/v3"
	turn "github.com/pion/turn/v5"
)

// clientTxnSys binds spec/ClientTxn.tla to a real turn.Client over a scripted PacketConn.
type clientTxnSys struct {
	net                 *MemNet
	cconn               *MemConn
	server              *MemConn
	decoy               *MemConn // the TURN server address of the client: nothing is ever sent there in this walk
	saddr               *net.UDPAddr
	cl                  *turn.Client
	seed                int64
	txid                map[string][stun.TransactionIDSize]byte
	name                map[[stun.TransactionIDSize]byte]string
	writes              map[string]int // transmissions per transaction, counted at the client's socket
	failAt              map[string]int
	retMu               sync.Mutex
	rets                []Obs
	nStarted, nReturned int
	kept                []keptRes
	started             map[string]bool
	rto                 time.Duration
	slow                map[string]chan struct{} // first write of t is parked until released
	slowRtx             map[string]chan struct{} // the next retransmission of t is parked until released ...
	slowRtxAt           map[string]int           // ... it is this transmission
	rtxFail             map[string]bool          // ... and then fails
	closeDone           chan struct{}            // a Client.Close started while a retransmission was parked
}

// keptRes: a result handed to a caller; it stays that caller's (later traffic must not change it)
type keptRes struct {
	t   string
	id  [stun.TransactionIDSize]byte
	msg *stun.Message
}

var errInjectedWrite = errors.New("memnet: injected write error")

func newClientTxnSys(meta Meta, seed int64, _ any) (Sys, error) {
	s := &clientTxnSys{
		net: NewMemNet(), seed: seed, txid: map[string][stun.TransactionIDSize]byte{}, name: map[[stun.TransactionIDSize]byte]string{},
		writes: map[string]int{}, failAt: map[string]int{}, started: map[string]bool{}, slow: map[string]chan struct{}{},
		slowRtx: map[string]chan struct{}{}, slowRtxAt: map[string]int{}, rtxFail: map[string]bool{},
	}
	ms, _ := strconv.Atoi(meta.Extra["RTO"])
	s.rto = time.Duration(ms) * time.Millisecond
	s.saddr = &net.UDPAddr{IP: net.IPv4(10, 0, 0, 1).To4(), Port: 3478}
	s.server = s.net.MustListen(s.saddr)
	s.cconn = s.net.MustListen(&net.UDPAddr{IP: net.IPv4(10, 0, 0, 11).To4(), Port: 40001})
	s.cconn.WriteErr = func(p []byte, _ net.Addr) error {
		m := &stun.Message{Raw: append([]byte{}, p...)}
		if m.Decode() != nil {
			return nil
		}
		t, ok := s.name[m.TransactionID]
		if !ok {
			return nil
		}
		s.writes[t]++
		if s.failAt[t] == s.writes[t] {
			return errInjectedWrite
		}
		if ch := s.slow[t]; ch != nil && s.writes[t] == 1 {
			<-ch // the caller is inside conn.WriteTo until the harness releases it
		}
		if ch := s.slowRtx[t]; ch != nil && s.writes[t] == s.slowRtxAt[t] {
			<-ch // the timer callback is inside conn.WriteTo (holding the table lock) until the harness releases it
			if s.rtxFail[t] {
				return errInjectedWrite
			}
		}

		return nil
	}
	// the transactions of this walk go to s.saddr, which is NOT the client's TURN server: every transmission
	// of a transaction goes to that transaction's own destination
	s.decoy = s.net.MustListen(&net.UDPAddr{IP: net.IPv4(10, 0, 0, 2).To4(), Port: 3478})
	cl, err := turn.NewClient(&turn.ClientConfig{
		STUNServerAddr: s.saddr.String(), TURNServerAddr: s.decoy.addr.String(), Conn: s.cconn, RTO: s.rto,
		Username: "u1", Password: "pw-u1", Realm: realm, LoggerFactory: quietLoggerFactory{}, Net: newFakeNet(),
	})
	if err != nil {
		return nil, err
	}
	s.cl = cl

	return s, cl.Listen()
}

// Stuck is asked after a divergence: the client is closed and ten seconds pass; a PerformTransaction that has
// still not returned never will (its caller waits for a result nobody can deliver any more).
func (s *clientTxnSys) Stuck(wait func()) string {
	s.Close()
	wait()
	time.Sleep(10 * time.Second)
	wait()
	s.retMu.Lock()
	defer s.retMu.Unlock()
	if s.nReturned < s.nStarted {
		return fmt.Sprintf("%d of %d PerformTransaction calls have not returned 10 s after Client.Close: they wait for a result that can no longer be delivered", s.nStarted-s.nReturned, s.nStarted)
	}

	return ""
}

func (s *clientTxnSys) Close() {
	for t, ch := range s.slow {
		close(ch)
		delete(s.slow, t)
	}
	for t, ch := range s.slowRtx {
		close(ch)
		delete(s.slowRtx, t)
	}
	s.cl.Close()
	_ = s.cconn.Close()
	_ = s.server.Close()
	_ = s.decoy.Close()
}

func (s *clientTxnSys) id(t string) [stun.TransactionIDSize]byte {
	if id, ok := s.txid[t]; ok {
		return id
	}
	h := sha256.Sum256([]byte(fmt.Sprintf("ctx/%d/%s", s.seed, t)))
	var id [stun.TransactionIDSize]byte
	copy(id[:], h[:])
	s.txid[t] = id
	s.name[id] = t

	return id
}

func (s *clientTxnSys) Do(a map[string]any, wait func()) ([]Obs, error) {
	time.Sleep(time.Microsecond)
	wait()
	t, _ := a["t"].(string)
	switch a["a"] {
	case "WriteDone":
		close(s.slow[t])
		delete(s.slow, t)
	case "WriteWait":
		time.Sleep(time.Duration(toInt(a["d"])) * time.Millisecond)
	case "RtxSlow": // the timer of t fires and its write parks
		s.slowRtx[t] = make(chan struct{})
		s.slowRtxAt[t] = s.writes[t] + 1
		time.Sleep(time.Duration(toInt(a["d"])) * time.Millisecond)
	case "CloseBlocked": // Close is called while the retransmission is inside the socket write
		s.closeDone = make(chan struct{})
		go func(done chan struct{}) {
			s.cl.Close()
			close(done)
		}(s.closeDone)
	case "RtxWriteDone":
		ok, _ := a["ok"].(bool)
		s.rtxFail[t] = !ok
		if ch := s.slowRtx[t]; ch != nil {
			close(ch)
			delete(s.slowRtx, t)
		}
	case "Start", "StartSlow":
		id := s.id(t)
		s.failAt[t] = toInt(a["failAt"])
		if a["a"] == "StartSlow" {
			s.slow[t] = make(chan struct{})
		}
		msg := stun.MustBuild(txidSetter(id), stun.BindingRequest)
		s.started[t] = true
		s.retMu.Lock()
		s.nStarted++
		s.retMu.Unlock()
		go func() {
			res, err := s.cl.PerformTransaction(msg, s.saddr, false)
			defer func() {
				s.retMu.Lock()
				s.nReturned++
				s.retMu.Unlock()
			}()
			o := Obs{"k": "ret", "t": t, "at": time.Now()}
			switch {
			case err == nil && res.Msg != nil && res.Msg.TransactionID == id:
				o["res"] = "resp"
				s.retMu.Lock()
				s.kept = append(s.kept, keptRes{t: t, id: id, msg: res.Msg})
				s.retMu.Unlock()
			case err == nil:
				o["res"] = "otherresp"
			case errors.Is(err, errInjectedWrite) || containsStr(err.Error(), "injected write") || containsStr(err.Error(), "retransmit"):
				o["res"] = "writeerr"
			case containsStr(err.Error(), "closed"):
				o["res"] = "closed"
			case containsStr(err.Error(), "retransmissions failed"):
				o["res"] = "timeout"
			default:
				o["res"] = "err:" + err.Error()
			}
			s.retMu.Lock()
			s.rets = append(s.rets, o)
			s.retMu.Unlock()
		}()
	case "StartIgnore": // fire and forget: the call returns at once, without a result
		id := s.id(t)
		msg := stun.MustBuild(txidSetter(id), stun.BindingRequest)
		s.started[t] = true
		_, err := s.cl.PerformTransaction(msg, s.saddr, true)
		o := Obs{"k": "ret", "t": t, "res": "ignored"}
		if err != nil {
			o["res"] = "err:" + err.Error()
		}
		s.retMu.Lock()
		s.rets = append(s.rets, o)
		s.retMu.Unlock()
	case "ResponseOther": // the same response, from another transport address than the request went to
		m := stun.MustBuild(txidSetter(s.id(t)), stun.BindingSuccess, &stun.XORMappedAddress{IP: net.IPv4(10, 0, 0, 11), Port: 40001})
		_, _ = s.decoy.WriteTo(m.Raw, s.cconn.addr)
	case "Response":
		m := stun.MustBuild(txidSetter(s.id(t)), stun.BindingSuccess, &stun.XORMappedAddress{IP: net.IPv4(10, 0, 0, 11), Port: 40001})
		_, _ = s.server.WriteTo(m.Raw, s.cconn.addr)
	case "Indication":
		m := stun.MustBuild(txidSetter(s.id(t)), stun.NewType(stun.MethodBinding, stun.ClassIndication), &stun.XORMappedAddress{IP: net.IPv4(203, 0, 113, 66), Port: 6666})
		_, _ = s.server.WriteTo(m.Raw, s.cconn.addr)
	case "Foreign":
		h := sha256.Sum256([]byte(fmt.Sprintf("foreign/%d/%d", s.seed, len(s.rets))))
		var id [stun.TransactionIDSize]byte
		copy(id[:], h[:])
		m := stun.MustBuild(txidSetter(id), stun.BindingSuccess, &stun.XORMappedAddress{IP: net.IPv4(10, 0, 0, 11), Port: 40001})
		_, _ = s.server.WriteTo(m.Raw, s.cconn.addr)
	case "Close":
		s.cl.Close()
	case "Advance":
		time.Sleep(time.Duration(toInt(a["d"])) * time.Millisecond)
	default:
		return nil, fmt.Errorf("unknown clienttxn action %v", a["a"])
	}
	wait()
	var obs []Obs
	for _, pk := range s.server.Drain() {
		m := &stun.Message{Raw: pk.Data}
		if m.Decode() != nil {
			obs = append(obs, Obs{"k": "sent", "t": "?undecodable"})

			continue
		}
		n, ok := s.name[m.TransactionID]
		if !ok {
			n = "?unknown"
		}
		obs = append(obs, Obs{"k": "sent", "t": n})
	}
	for range s.decoy.Drain() {
		obs = append(obs, Obs{"k": "sent", "t": "?to-the-TURN-server-address"})
	}
	s.retMu.Lock()
	obs = append(obs, s.rets...)
	s.rets = nil
	s.retMu.Unlock()

	return obs, nil
}

func containsStr(s, sub string) bool {
	return len(sub) == 0 || (len(s) >= len(sub) && (func() bool {
		for i := 0; i+len(sub) <= len(s); i++ {
			if s[i:i+len(sub)] == sub {
				return true
			}
		}

		return false
	})())
}

func (s *clientTxnSys) Check(e Edge, obs []Obs) []Mismatch {
	var ms []Mismatch
	want := map[string]int{}
	for _, x := range e.O {
		m, _ := x.(map[string]any)
		switch m["k"] {
		case "sent":
			want["sent|"+fmt.Sprint(m["t"])]++
		case "ret":
			want["ret|"+fmt.Sprint(m["t"])+"|"+fmt.Sprint(m["res"])]++
		}
	}
	got := map[string]int{}
	for _, o := range obs {
		switch o["k"] {
		case "sent":
			got["sent|"+fmt.Sprint(o["t"])]++
		case "ret":
			got["ret|"+fmt.Sprint(o["t"])+"|"+fmt.Sprint(o["res"])]++
		}
	}
	keys := map[string]bool{}
	for k := range want {
		keys[k] = true
	}
	for k := range got {
		keys[k] = true
	}
	sorted := make([]string, 0, len(keys))
	for k := range keys {
		sorted = append(sorted, k)
	}
	sort.Strings(sorted)
	for _, k := range sorted {
		if want[k] != got[k] {
			ms = append(ms, Mismatch{"txn", fmt.Sprintf("%s: spec %d, client %d (step %s)", k, want[k], got[k], canon(e.A))})
		}
	}
	// the table holds exactly the pending transactions
	ts, _ := e.TS.(map[string]any)
	tx, _ := ts["txn"].(map[string]any)
	pending := 0
	for _, v := range tx {
		if r, _ := v.(map[string]any); r["phase"] == "pending" || (r["phase"] == "writing" && r["got"] == "none") || r["phase"] == "rewriting" {
			pending++
		}
	}
	// results handed out earlier still are what they were: the response of THAT transaction, decodable, with its address
	s.retMu.Lock()
	for _, k := range s.kept {
		var xm stun.XORMappedAddress
		cp := &stun.Message{Raw: append([]byte{}, k.msg.Raw...)}
		if len(k.msg.Raw) < 20 || !bytes.Equal(k.msg.Raw[8:20], k.id[:]) || cp.Decode() != nil || xm.GetFrom(cp) != nil || xm.Port != 40001 {
			ms = append(ms, Mismatch{"txn", fmt.Sprintf("the result returned for %s no longer is that transaction's response (its bytes changed after it was handed to the caller)", k.t)})

			break
		}
	}
	s.retMu.Unlock()
	if n := s.cl.VerifTransactionCount(); n != pending {
		ms = append(ms, Mismatch{"txn.table", fmt.Sprintf("transaction table holds %d entries, %d transactions are pending", n, pending)})
	}

	return ms
}
