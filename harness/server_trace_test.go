package verifx

import (
	"crypto/sha256"
	"fmt"
	"math/rand"
	"net"
	"os"
	"sort"
	"strings"
	"testing"
	"testing/synctest"
	"time"

	"github.com/pion/stun/v3"
	"github.com/pion/turn/v5/internal/proto"
)

// Engine B driver for the relay server (spec/TraceServer.tla): seeded random histories that are NOT
// derived from the specification, with real concurrency inside the server.  Every round puts up to
// four operations of different 5-tuples on the wire back to back -- requests of clients of the IPv4 and
// of the IPv6 listener (two listener goroutines), Send indications / ChannelData, and datagrams from
// peers to relayed addresses (one reader goroutine per allocation) -- lets the server settle, and records
// what every operation got back and the projected tables.  The order in which the server took the
// operations is not recorded: TLC infers it.  Rounds are separated by 0 .. 1800 s of virtual time, with
// the real timeouts (allocation 600 s, permission 300 s, channel 600 s).

type batchOp struct {
	id   int
	a    map[string]any
	txid [stun.TransactionIDSize]byte
	pay  string
	obs  []map[string]any
}

func serverTraceMeta() Meta {
	return Meta{
		DefaultLife: 600, PermTO: 300, ChanTO: 600, MaxLife: 3600, InboundMTU: 1600,
		Fam:       map[string]int{"A": 4, "B": 4, "X": 6},
		ListenFam: map[string]int{"c1": 4, "c2": 4, "c3": 4, "c6": 6, "s1": 4, "s2": 4},
		Clients:   []string{"c1", "c2", "c3", "c6", "s1", "s2"}, Users: []string{"u1", "u2"}, PeerPorts: []int{1, 2},
	}
}

//nolint:gocyclo,cyclop,maintidx
func runServerBatchExecution(t *testing.T, seed int64, log *traceLog) {
	t.Helper()
	synctest.Test(t, func(t *testing.T) {
		rng := rand.New(rand.NewSource(seed)) //nolint:gosec
		meta := serverTraceMeta()
		w, err := NewWorld(meta, seed)
		if err != nil {
			t.Fatal(err)
		}
		defer func() {
			w.Close()
			synctest.Wait()
		}()
		log.add(map[string]any{"e": "Reset", "seed": seed, "variant": w.Var.Name})
		// a local check of the driver failed: no step of the trace specification consumes a "Bad" line; it names
		// the properties whose statement the observation contradicts
		bad := func(why string, owners ...string) { log.add(map[string]any{"e": "Bad", "why": why, "owners": owners}) }
		clients := meta.Clients
		ips := []string{"A", "B", "X"}
		chans := []int{16384, 16385, 16386, 1}
		lastTx := map[string]string{}
		opn := 0
		nonceAt := time.Time{}
		pr := w.Project()
		rounds := 30 + rng.Intn(30)
		for b := 0; b < rounds; b++ {
			w.step = b
			if w.nonce == "" || time.Since(nonceAt) > 50*time.Minute {
				if err := w.mintNonce(synctest.Wait); err != nil {
					t.Fatal(err)
				}
				nonceAt = time.Now()
			}
			// ---- choose the operations of this round -------------------------------------------
			var ops []*batchOp
			newOp := func(a map[string]any) *batchOp {
				opn++
				op := &batchOp{id: opn, a: a}
				h := sha256.Sum256([]byte(fmt.Sprintf("batch/%d/%d", seed, opn)))
				copy(op.txid[:], h[:])
				ops = append(ops, op)

				return op
			}
			perm := rng.Perm(len(clients))
			k := 1 + rng.Intn(4)
			for _, ci := range perm[:min(k, len(clients))] {
				c := clients[ci]
				st := pr.C[c]
				u := "u1"
				if st.Live {
					u = st.User
				} else if rng.Intn(3) == 0 {
					u = "u2"
				}
				if rng.Intn(8) == 0 { // somebody else's (valid) credentials
					u = map[string]string{"u1": "u2", "u2": "u1"}[u]
				}
				peer := []any{ips[rng.Intn(len(ips))], 1 + rng.Intn(2)}
				r := rng.Intn(100)
				if !st.Live && r < 70 {
					r = 0
				} else if !st.Live {
					r = 8 + rng.Intn(92)
				}
				if w.isStream(c) && st.Live && rng.Intn(12) == 0 {
					newOp(map[string]any{"a": "ConnClose", "c": c}) // the control connection ends

					continue
				}
				switch {
				case r < 8: // Allocate (a second one, or the retransmission of the last one)
					tx := fmt.Sprintf("t%d", opn+1)
					if lastTx[c] != "" && rng.Intn(3) == 0 {
						tx = lastTx[c]
					}
					lastTx[c] = tx
					op := newOp(map[string]any{"a": "Allocate", "c": c, "u": u, "lr": []int{-1, -1, -1, 0, 30, 1200, 3600, 4000}[rng.Intn(8)], "tx": tx,
						"rf": []int{0, 0, 0, 4, 6}[rng.Intn(5)]})
					op.txid = w.txid(c + "/" + tx)
				case r < 22:
					newOp(map[string]any{"a": "Refresh", "c": c, "u": u, "lr": []int{-1, -1, 0, 30, 900}[rng.Intn(5)], "rf": []int{0, 0, 0, 4, 6}[rng.Intn(5)]})
				case r < 42:
					seq := []any{ips[rng.Intn(len(ips))]}
					if rng.Intn(3) == 0 {
						seq = append(seq, ips[rng.Intn(len(ips))])
					}
					newOp(map[string]any{"a": "CreatePermission", "c": c, "u": u, "ips": seq})
				case r < 64:
					newOp(map[string]any{"a": "ChannelBind", "c": c, "u": u, "n": chans[rng.Intn(len(chans))], "p": peer})
				case r < 80:
					op := newOp(map[string]any{"a": "SendInd", "c": c, "p": peer})
					op.pay = fmt.Sprintf("b%d", op.id)
					op.a["pay"] = op.pay
				case r < 93:
					op := newOp(map[string]any{"a": "ChanData", "c": c, "n": chans[rng.Intn(3)]})
					op.pay = fmt.Sprintf("b%d", op.id)
					op.a["pay"] = op.pay
				default:
					newOp(map[string]any{"a": "Binding", "c": c})
				}
			}
			// datagrams from peers toward relayed addresses (also of clients that act in this round)
			for i := rng.Intn(3); i > 0; i-- {
				c := clients[rng.Intn(len(clients))]
				if w.relayOf[c] == nil {
					continue
				}
				op := newOp(map[string]any{"a": "PeerData", "c": c, "p": []any{ips[rng.Intn(len(ips))], 1 + rng.Intn(2)}})
				op.pay = fmt.Sprintf("b%d", op.id)
				op.a["pay"] = op.pay
			}
			// ---- put them on the wire back to back ---------------------------------------------
			w.curPay = map[string][]byte{}
			byPay := map[string]*batchOp{}
			byTx := map[[stun.TransactionIDSize]byte]*batchOp{}
			type sendFn func()
			var sends []sendFn
			for _, op := range ops {
				op := op
				a := op.a
				c, _ := a["c"].(string)
				u, _ := a["u"].(string)
				byTx[op.txid] = op
				var pay []byte
				if op.pay != "" {
					pay = w.payload(op.pay, -1)
					w.curPay[op.pay] = pay
					byPay[op.pay] = op
				}
				var raw []byte
				switch a["a"] {
				case "Binding":
					raw = stun.MustBuild(txidSetter(op.txid), stun.BindingRequest).Raw
				case "Allocate":
					attrs := []stun.Setter{proto.RequestedTransport{Protocol: proto.ProtoUDP}}
					if lr := toInt(a["lr"]); lr >= 0 {
						attrs = append(attrs, w.lifeAttr(lr))
					}
					attrs = append(attrs, famAttr(toInt(a["rf"]))...)
					raw = w.authed(u, op.txid, stun.MethodAllocate, attrs...)
				case "Refresh":
					attrs := []stun.Setter{}
					if lr := toInt(a["lr"]); lr >= 0 {
						attrs = append(attrs, w.lifeAttr(lr))
					}
					attrs = append(attrs, famAttr(toInt(a["rf"]))...)
					raw = w.authed(u, op.txid, stun.MethodRefresh, attrs...)
				case "CreatePermission":
					attrs := []stun.Setter{}
					for _, i := range a["ips"].([]any) {
						attrs = append(attrs, w.wirePeer([]any{i, meta.PeerPorts[0]}))
					}
					raw = w.authed(u, op.txid, stun.MethodCreatePermission, attrs...)
				case "ChannelBind":
					raw = w.authed(u, op.txid, stun.MethodChannelBind, proto.ChannelNumber(toInt(a["n"])), w.wirePeer(a["p"].([]any))) //nolint:gosec
				case "SendInd":
					raw = stun.MustBuild(stun.TransactionID, stun.NewType(stun.MethodSend, stun.ClassIndication), w.wirePeer(a["p"].([]any)), proto.Data(pay)).Raw
				case "ChanData":
					cd := proto.ChannelData{Number: proto.ChannelNumber(toInt(a["n"])), Data: pay} //nolint:gosec
					cd.Encode()
					raw = cd.Raw
				case "ConnClose":
					sends = append(sends, func() {
						if st := w.streams[c]; st != nil {
							_ = st.Close()
						}
					})

					continue
				case "PeerData":
					p := a["p"].([]any)
					pc := w.peers[fmt.Sprintf("%s/%d", p[0], toInt(p[1]))]
					ra := w.relayOf[c]
					sends = append(sends, func() { _, _ = pc.WriteTo(pay, ra) })

					continue
				}
				sends = append(sends, func() { w.sendFromClient(c, raw) })
			}
			rng.Shuffle(len(sends), func(i, j int) { sends[i], sends[j] = sends[j], sends[i] })
			for _, s := range sends {
				s()
			}
			synctest.Wait()
			for _, op := range ops {
				if op.a["a"] == "ConnClose" { // a new control connection from the same address for later rounds
					if err := w.dialStream(op.a["c"].(string)); err != nil {
						t.Fatal(err)
					}
				}
			}
			// ---- what every operation got back -------------------------------------------------
			cn := append([]string{}, clients...)
			sort.Strings(cn)
			for _, c := range cn {
				for _, pk := range w.drainClient(c) {
					o := w.decodeAtClient(c, pk)
					switch o["k"] {
					case "resp":
						m := &stun.Message{Raw: pk.Data}
						_ = m.Decode()
						op := byTx[m.TransactionID]
						if op == nil {
							bad(fmt.Sprintf("%s received a %v response with a transaction id nobody used", c, o["m"]), "C19")

							continue
						}
						if op.a["c"] != c {
							bad(fmt.Sprintf("the response to %v's %v was delivered to %s", op.a["c"], op.a["a"], c), "C19", "C04")

							continue
						}
						life := -1
						if l, ok := o["life"]; ok {
							life = toInt(l)
						}
						if o["cls"] == "ok" && o["m"] == "Allocate" {
							ra, _ := o["relayaddr"].(*net.UDPAddr)
							switch {
							case ra == nil:
								bad("Allocate success without XOR-RELAYED-ADDRESS", "C19")
							case o["mapped"] != c:
								bad(fmt.Sprintf("Allocate success of %s reports the mapped address of %v", c, o["mapped"]), "C19")
							default:
								w.relayOwner[key(ra)] = c
								w.relayOf[c] = ra
							}
						}
						if o["cls"] == "ok" && o["m"] == "Binding" && o["mapped"] != c {
							bad(fmt.Sprintf("Binding success of %s reports the mapped address of %v", c, o["mapped"]), "C19")
						}
						if o["cls"] == "ok" && o["m"] != "Binding" && o["mi"] != true {
							bad(fmt.Sprintf("%v success without MESSAGE-INTEGRITY", o["m"]), "C19")
						}
						op.obs = append(op.obs, map[string]any{"k": "resp", "to": c, "m": o["m"], "cls": o["cls"], "code": toInt(o["code"]), "life": life})
					case "toclient":
						id, _ := o["pay"].(string)
						op := byPay[id]
						if op == nil {
							bad(fmt.Sprintf("%s received relayed data nobody sent in this round: %v", c, o["pay"]), "C05", "C02")

							continue
						}
						peer, _ := o["peer"].([]any)
						if peer == nil {
							peer = []any{"?", 0}
						}
						if op.a["c"] != c {
							bad(fmt.Sprintf("a datagram for the relayed address of %v was delivered to %s", op.a["c"], c), "C04", "C02")
						}
						op.obs = append(op.obs, map[string]any{"k": "toclient", "to": c, "via": o["via"], "n": toInt(o["n"]), "peer": peer, "pay": id})
					default:
						bad(fmt.Sprintf("%s received %v", c, o["why"]), "C19", "C05")
					}
				}
			}
			pn := make([]string, 0, len(w.peers))
			for p := range w.peers {
				pn = append(pn, p)
			}
			sort.Strings(pn)
			for _, p := range pn {
				for _, pk := range w.peers[p].Drain() {
					id, _ := w.payID(pk.Data).(string)
					op := byPay[id]
					owner, ok := w.relayOwner[key(pk.From)]
					if op == nil || !ok {
						bad(fmt.Sprintf("peer %s received a datagram from %v that no operation of this round explains (%v)", p, pk.From, id), "C01", "C05")

						continue
					}
					if op.a["a"] != "PeerData" && op.a["c"] != owner {
						bad(fmt.Sprintf("data submitted by %v left from the relayed address of %s", op.a["c"], owner), "C04", "C01")
					}
					op.obs = append(op.obs, map[string]any{"k": "topeer", "from": owner, "to": []any{w.peerKey[p].ip, w.peerKey[p].port}, "pay": id})
				}
			}
			for _, op := range ops {
				if op.obs == nil {
					op.obs = []map[string]any{}
				}
				log.add(map[string]any{"e": "Op", "id": op.id, "a": op.a, "obs": op.obs})
			}
			// ---- the tables ---------------------------------------------------------------------
			pr = w.Project()
			if len(pr.Extra) > 0 {
				bad("allocations that belong to no client of the driver: "+strings.Join(pr.Extra, ", "), "C04", "C06")
			}
			if !pr.Locks {
				bad("a manager or allocation lock is held at a quiescent point", "C18")
			}
			al, pm, ch := map[string]any{}, map[string]any{}, map[string]any{}
			live := 0
			relays := map[string]string{}
			for _, c := range clients {
				st := pr.C[c]
				al[c] = map[string]any{"live": st.Live, "user": st.User, "fam": st.Fam}
				ps := []any{}
				for _, i := range st.Perms {
					ps = append(ps, i)
				}
				pm[c] = ps
				cs := []any{}
				ns := make([]int, 0, len(st.Chans))
				for n := range st.Chans {
					ns = append(ns, n)
				}
				sort.Ints(ns)
				for _, n := range ns {
					p := st.Chans[n]
					cs = append(cs, []any{n, p[0], toInt(p[1])})
				}
				ch[c] = cs
				if st.Live {
					live++
					if other, dup := relays[st.Relay]; dup {
						bad(fmt.Sprintf("%s and %s hold the same relayed address %s", c, other, st.Relay), "C19", "C04")
					}
					relays[st.Relay] = c
					if w.relayOf[c] == nil || w.relayOf[c].String() != st.Relay {
						bad(fmt.Sprintf("%s: the relayed address advertised (%v) is not the allocation's (%s)", c, w.relayOf[c], st.Relay), "C19")
					}
				}
			}
			if pr.Count != live {
				bad(fmt.Sprintf("AllocationCount()=%d, live allocations=%d", pr.Count, live), "C15")
			}
			log.add(map[string]any{"e": "Settle", "alloc": al, "perm": pm, "chan": ch})
			// ---- time ----------------------------------------------------------------------------
			d := []int{0, 0, 0, 0, 0, 0, 1, 2, 5, 29, 30, 31, 60, 120, 150, 299, 300, 301, 200, 299, 599, 600, 601, 1800}[rng.Intn(24)]
			time.Sleep(time.Duration(d)*time.Second + time.Millisecond) // (+1 ms: no round ever starts at the instant of a deadline)
			synctest.Wait()
			if d > 0 {
				log.add(map[string]any{"e": "Adv", "d": d})
				pr = w.Project()
			}
		}
	})
}

// TestServerTrace records VERIF_NTRACES executions into VERIF_TRACE_OUT.
func TestServerTrace(t *testing.T) {
	out := os.Getenv("VERIF_TRACE_OUT")
	if out == "" {
		t.Skip("VERIF_TRACE_OUT not set")
	}
	startWatchdogFor(t)
	seed := envInt("VERIF_SEED", 1)
	n := int(envInt("VERIF_NTRACES", 8))
	log := &traceLog{}
	flushTrace = func() {
		log.mu.Lock()
		defer log.mu.Unlock()
		_ = os.WriteFile(out, []byte(strings.Join(log.lines, "\n")+"\n"), 0o644)
	}
	for i := 0; i < n; i++ {
		markProgress(fmt.Sprintf("server execution %d", i))
		runServerBatchExecution(t, seed*1000+int64(i), log)
	}
	markProgress("")
	flushTrace()
	t.Logf("recorded %d executions, %d events", n, len(log.lines))
}
