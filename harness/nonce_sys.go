package verifx

import (
	"fmt"
	"strings"
	"time"

	"github.com/pion/turn/v5/internal/server"
)

// nonceSys binds spec/Nonce.tla to the two real nonce managers.
type nonceSys struct {
	nm     server.NonceManager
	other  server.NonceManager
	impl   string
	nonce  string
	seed   int64
	hmacLn int
}

func newNonceSys(_ Meta, seed int64, init any) (Sys, error) {
	st, _ := init.(map[string]any)
	impl, _ := st["impl"].(string)
	n := &nonceSys{impl: impl, seed: seed, hmacLn: toInt(st["hlen"])}
	var err error
	switch impl {
	case "long":
		n.nm, err = server.NewNonceHash()
		if err == nil {
			n.other, err = server.NewNonceHash()
		}
	case "short":
		n.nm, err = server.NewShortNonceHash(n.hmacLn)
		if err == nil {
			n.other, err = server.NewShortNonceHash(n.hmacLn)
		}
	default:
		err = fmt.Errorf("unknown nonce implementation %q", impl)
	}
	// the phase of the mint inside its minute varies with the seed (the short nonce is minute-granular)
	time.Sleep(time.Duration(seed%60) * time.Second)

	return n, err
}

func (n *nonceSys) Close() {}

func (n *nonceSys) Do(a map[string]any, wait func()) ([]Obs, error) {
	switch a["a"] {
	case "Mint":
		s, err := n.nm.Generate()
		if err != nil {
			return nil, err
		}
		n.nonce = s

		return []Obs{{"k": "minted"}}, nil
	case "Tick":
		time.Sleep(time.Duration(toInt(a["d"])) * time.Second)

		return nil, nil
	case "Present":
		cand, err := n.mutate(a["mut"].(string))
		if err != nil {
			return nil, err
		}
		ok := n.nm.Validate(cand) == nil

		return []Obs{{"k": "verdict", "ok": ok, "cand": cand}}, nil
	}

	return nil, fmt.Errorf("unknown nonce action %v", a["a"])
}

func (n *nonceSys) mutate(mut string) (string, error) {
	s := n.nonce
	flip := func(i int) string {
		b := []byte(s)
		c := b[i]
		r := byte('1')
		if c == '1' {
			r = '2'
		}
		b[i] = r

		return string(b)
	}
	switch mut {
	case "none":
		return s, nil
	case "flipFirst": // most significant digits: the timestamp
		return flip(0), nil
	case "flipLast": // least significant digits: the MAC
		return flip(len(s) - 1), nil
	case "flipMid":
		return flip(len(s) / 2), nil
	case "trunc":
		return s[:len(s)-2], nil
	case "extend":
		return s + "00", nil
	case "extendLong":
		return s + "ZZZZZZZZZZ", nil
	case "prefix":
		return "1" + s, nil
	case "badchars":
		return s[:len(s)/2] + "!?" + s[len(s)/2+2:], nil
	case "otherKey":
		return n.other.Generate()
	case "empty":
		return "", nil
	case "spaces":
		return strings.Repeat(" ", len(s)), nil
	}

	return "", fmt.Errorf("unknown mutation %q", mut)
}

func (n *nonceSys) Check(e Edge, obs []Obs) []Mismatch {
	for _, x := range e.O {
		m, _ := x.(map[string]any)
		if m["k"] != "verdict" {
			continue
		}
		want, _ := m["ok"].(bool)
		if len(obs) != 1 {
			return []Mismatch{{"harness", "no verdict observed"}}
		}
		if got, _ := obs[0]["ok"].(bool); got != want {
			return []Mismatch{{"nonce", fmt.Sprintf("%s/%d Validate(%v of a nonce aged %v s) = %v, spec %v (candidate %q)",
				n.impl, n.hmacLn, e.A["mut"], e.A["age"], got, want, obs[0]["cand"])}}
		}
	}

	return nil
}
