package verifx

import "github.com/pion/turn/v5/internal/server"

// otherInstanceNonce mints a nonce with the server's own implementation but another
// instance's key.
func otherInstanceNonce() string {
	nh, err := server.NewShortNonceHash(0)
	if err != nil {
		panic(err)
	}
	n, err := nh.Generate()
	if err != nil {
		panic(err)
	}

	return n
}
