module github.com/pion/turn/v5/verifx

go 1.26

require (
	github.com/pion/logging v0.2.4
	github.com/pion/randutil v0.1.0
	github.com/pion/stun/v3 v3.1.6
	github.com/pion/transport/v4 v4.0.2
	github.com/pion/turn/v5 v5.0.0
)

require (
	github.com/pion/dtls/v3 v3.1.4 // indirect
	github.com/wlynxg/anet v0.0.5 // indirect
	golang.org/x/crypto v0.48.0 // indirect
	golang.org/x/sys v0.41.0 // indirect
)

replace github.com/pion/turn/v5 => /repo
