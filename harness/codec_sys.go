package verifx

import (
	"bytes"
	"crypto/sha256"
	"encoding/binary"
	"fmt"
	"net"
	"strconv"
	"strings"
	"time"

	"github.com/pion/stun/v3"
	"github.com/pion/turn/v5/internal/proto"
)

// codecSys binds spec/Codec.tla to the real codecs of internal/proto.
type codecSys struct {
	seed  int64
	step  int
	sweep []Mismatch
	// one ChannelData value reused across encodes (the Reset/Encode pattern), dirtied in between
	reused proto.ChannelData
}

func newCodecSys(meta Meta, seed int64, _ any) (Sys, error) {
	s := &codecSys{seed: seed}
	lo, _ := strconv.Atoi(meta.Extra["validlo"])
	hi, _ := strconv.Atoi(meta.Extra["validhi"])
	// all 65536 channel numbers: acceptance by Decode / IsChannelData / ChannelNumber.Valid
	for n := 0; n <= 0xFFFF; n++ {
		buf := []byte{byte(n >> 8), byte(n), 0, 4, 0xde, 0xad, 0xbe, 0xef}
		want := n >= lo && n <= hi
		cd := proto.ChannelData{Raw: buf}
		derr := cd.Decode()
		if (derr == nil) != want || proto.IsChannelData(buf) != want || proto.ChannelNumber(n).Valid() != want { //nolint:gosec
			s.sweep = append(s.sweep, Mismatch{"codec", fmt.Sprintf("channel number %#x: Decode err=%v IsChannelData=%v Valid=%v, spec valid=%v",
				n, derr, proto.IsChannelData(buf), proto.ChannelNumber(n).Valid(), want)}) //nolint:gosec
			if len(s.sweep) > 5 {
				break
			}
		}
	}

	return s, nil
}

func (s *codecSys) Close() {}

func (s *codecSys) fill(n int, salt string) []byte {
	out := make([]byte, 0, n+32)
	for c := 0; len(out) < n; c++ {
		h := sha256.Sum256([]byte(fmt.Sprintf("codec/%d/%d/%s/%d", s.seed, s.step, salt, c)))
		out = append(out, h[:]...)
	}
	out = out[:n]
	for i := range out { // never zero, so that stale bytes and missing zero padding show
		if out[i] == 0 {
			out[i] = 0x5a
		}
	}

	return out
}

var attrTypes = map[string]stun.AttrType{
	"CHANNEL-NUMBER": stun.AttrChannelNumber, "LIFETIME": stun.AttrLifetime, "XOR-PEER-ADDRESS": stun.AttrXORPeerAddress,
	"XOR-RELAYED-ADDRESS": stun.AttrXORRelayedAddress, "DATA": stun.AttrData, "REQUESTED-TRANSPORT": stun.AttrRequestedTransport,
	"REQUESTED-ADDRESS-FAMILY": stun.AttrRequestedAddressFamily, "EVEN-PORT": stun.AttrEvenPort,
	"RESERVATION-TOKEN": stun.AttrReservationToken, "CONNECTION-ID": stun.AttrConnectionID, "DONT-FRAGMENT": stun.AttrDontFragment,
}

func getFrom(attr string, m *stun.Message) (any, error) {
	switch attr {
	case "CHANNEL-NUMBER":
		var v proto.ChannelNumber
		err := v.GetFrom(m)

		return v, err
	case "LIFETIME":
		var v proto.Lifetime
		err := v.GetFrom(m)

		return v.Duration, err
	case "XOR-PEER-ADDRESS":
		var v proto.PeerAddress
		err := v.GetFrom(m)

		return fmt.Sprintf("%s|%d", v.IP, v.Port), err
	case "XOR-RELAYED-ADDRESS":
		var v proto.RelayedAddress
		err := v.GetFrom(m)

		return fmt.Sprintf("%s|%d", v.IP, v.Port), err
	case "DATA":
		var v proto.Data
		err := v.GetFrom(m)

		return []byte(v), err
	case "REQUESTED-TRANSPORT":
		var v proto.RequestedTransport
		err := v.GetFrom(m)

		return v.Protocol, err
	case "REQUESTED-ADDRESS-FAMILY":
		var v proto.RequestedAddressFamily
		err := v.GetFrom(m)

		return v, err
	case "EVEN-PORT":
		var v proto.EvenPort
		err := v.GetFrom(m)

		return v.ReservePort, err
	case "RESERVATION-TOKEN":
		var v proto.ReservationToken
		err := v.GetFrom(m)

		return []byte(v), err
	case "CONNECTION-ID":
		var v proto.ConnectionID
		err := v.GetFrom(m)

		return v, err
	case "DONT-FRAGMENT":
		var v proto.DontFragment
		err := v.GetFrom(m)

		return v.IsSet(m), err
	}

	return nil, fmt.Errorf("unknown attribute %q", attr)
}

// valueOf returns the setter for a value class of an attribute, or nil when the class does not
// belong to the attribute's domain.
func (s *codecSys) valueOf(attr, v string) (stun.Setter, any) {
	num := map[string]uint64{"zero": 0, "one": 1, "max16": 65535, "over16": 65536, "max32": 4294967295}
	n, isNum := num[v]
	switch attr {
	case "CHANNEL-NUMBER":
		if isNum && n <= 65535 {
			return proto.ChannelNumber(n), proto.ChannelNumber(n) //nolint:gosec
		}
	case "LIFETIME":
		if isNum {
			d := time.Duration(n) * time.Second //nolint:gosec

			return proto.Lifetime{Duration: d}, d
		}
	case "XOR-PEER-ADDRESS", "XOR-RELAYED-ADDRESS":
		var ip net.IP
		switch v {
		case "v4":
			ip = net.IPv4(192, 0, 2, 33).To4()
		case "v6":
			ip = net.ParseIP("2001:db8::beef")
		default:
			return nil, nil
		}
		port := 1 + int(uint64(s.seed)%65535) //nolint:gosec
		want := fmt.Sprintf("%s|%d", ip, port)
		if attr == "XOR-PEER-ADDRESS" {
			return proto.PeerAddress{IP: ip, Port: port}, want
		}

		return proto.RelayedAddress{IP: ip, Port: port}, want
	case "DATA":
		switch v {
		case "bytes0":
			return proto.Data{}, []byte{}
		case "bytes1500":
			b := s.fill(1500, "data")

			return proto.Data(b), b
		}
	case "REQUESTED-TRANSPORT":
		if isNum && n <= 1 {
			p := proto.ProtoUDP
			if n == 1 {
				p = proto.ProtoTCP
			}

			return proto.RequestedTransport{Protocol: p}, p
		}
	case "REQUESTED-ADDRESS-FAMILY":
		switch v {
		case "v4":
			return proto.RequestedFamilyIPv4, proto.RequestedFamilyIPv4
		case "v6":
			return proto.RequestedFamilyIPv6, proto.RequestedFamilyIPv6
		}
	case "EVEN-PORT":
		switch v {
		case "true":
			return proto.EvenPort{ReservePort: true}, true
		case "false":
			return proto.EvenPort{}, false
		}
	case "RESERVATION-TOKEN":
		if v == "token" {
			b := s.fill(8, "tok")

			return proto.ReservationToken(b), b
		}
	case "CONNECTION-ID":
		if isNum && n <= 4294967295 {
			return proto.ConnectionID(n), proto.ConnectionID(n) //nolint:gosec
		}
	case "DONT-FRAGMENT":
		if v == "true" {
			return proto.DontFragment{}, true
		}
	}

	return nil, nil
}

func (s *codecSys) Do(a map[string]any, _ func()) ([]Obs, error) {
	s.step++
	switch a["a"] {
	case "CDRoundTrip":
		n, l := toInt(a["num"]), toInt(a["len"])
		pay := s.fill(l, "pay")
		var cd *proto.ChannelData
		if a["reuse"] == "reused" {
			// the value was used for a larger message full of non-zero bytes, then Reset
			cd = &s.reused
			cd.Data = s.fill(l+7, "dirty")
			cd.Number = 0x4abc
			cd.Encode()
			cd.Reset()
		} else {
			cd = &proto.ChannelData{}
		}
		cd.Number = proto.ChannelNumber(n) //nolint:gosec
		cd.Data = pay
		cd.Encode()
		raw := append([]byte{}, cd.Raw...)
		o := Obs{"k": "cd", "wire": len(raw)}
		if len(raw) >= 4 {
			o["lenfield"] = int(binary.BigEndian.Uint16(raw[2:4]))
			o["numfield"] = int(binary.BigEndian.Uint16(raw[0:2]))
			o["padzero"] = true
			for i := 4 + l; i < len(raw); i++ {
				if raw[i] != 0 {
					o["padzero"] = false
				}
			}
			o["payload"] = len(raw) >= 4+l && bytes.Equal(raw[4:4+l], pay)
		}
		dec := proto.ChannelData{Raw: raw}
		err := dec.Decode()
		o["decodes"] = err == nil
		if err == nil {
			o["same"] = int(dec.Number) == n && bytes.Equal(dec.Data, pay) && dec.Length == l
		}
		o["ischan"] = proto.IsChannelData(raw)

		return []Obs{o}, nil
	case "CDDecode", "CDShort":
		var buf []byte
		declared := 0
		var body []byte
		if a["a"] == "CDShort" {
			buf = s.fill(toInt(a["size"]), "short")
			if len(buf) > 0 {
				buf[0] = 0x40
			}
		} else {
			declared = toInt(a["declared"])
			body = s.fill(toInt(a["actual"]), "body")
			buf = make([]byte, 4, 4+len(body))
			binary.BigEndian.PutUint16(buf[0:2], uint16(toInt(a["num"]))) //nolint:gosec
			binary.BigEndian.PutUint16(buf[2:4], uint16(declared))        //nolint:gosec
			buf = append(buf, body...)
		}
		cd := proto.ChannelData{Raw: buf}
		err := cd.Decode()
		o := Obs{"k": "cdraw", "ok": err == nil, "ischan": proto.IsChannelData(buf), "err": fmt.Sprint(err)}
		if err == nil {
			o["data"] = len(cd.Data)
			o["exact"] = declared <= len(body) && bytes.Equal(cd.Data, body[:declared])
		}
		// the same bytes as the front of a larger receive buffer (what every reader hands over: buf[:n]), the rest of
		// which holds an older, longer message: what lies beyond the received bytes is not part of the message
		big := append(append(make([]byte, 0, len(buf)+70000), buf...), bytes.Repeat([]byte{0xEE}, 70000)...)
		cd2 := proto.ChannelData{Raw: big[:len(buf)]}
		err2 := cd2.Decode()
		o["capsame"] = (err2 == nil) == (err == nil) && proto.IsChannelData(big[:len(buf)]) == proto.IsChannelData(buf) &&
			(err2 != nil || bytes.Equal(cd2.Data, cd.Data))

		return []Obs{o}, nil
	case "AttrRaw":
		attr, size, fill := a["attr"].(string), toInt(a["size"]), a["fill"].(string)
		var raw []byte
		switch fill {
		case "zeros":
			raw = make([]byte, size)
		case "ones":
			raw = bytes.Repeat([]byte{0xff}, size)
		default:
			raw = s.fill(size, "raw")
		}
		if fill == "rbit" && size > 0 { // only the R bit of EVEN-PORT (RFC 5766 14.6), the reserved bits zero
			raw = make([]byte, size)
			raw[0] = 0x80
		}
		fam := map[string]byte{"fam4": 1, "fam6": 2, "famBad": 7}[fill]
		if fam != 0 && size > 0 {
			if attr == "REQUESTED-ADDRESS-FAMILY" {
				raw[0] = fam
			} else if size > 1 {
				raw[0], raw[1] = 0, fam
			}
		}
		m := &stun.Message{}
		m.TransactionID = [12]byte{1, 2, 3, 4, 5, 6, 7, 8, 9, 10, 11, 12}
		m.Add(attrTypes[attr], raw)
		var got any
		var err error
		func() {
			defer func() {
				if r := recover(); r != nil {
					err = fmt.Errorf("PANIC: %v", r)
				}
			}()
			got, err = getFrom(attr, m)
		}()

		return []Obs{{"k": "attr", "ok": err == nil, "err": fmt.Sprint(err), "got": fmt.Sprint(got)}}, nil
	case "AttrRoundTrip":
		attr := a["attr"].(string)
		setter, want := s.valueOf(attr, a["v"].(string))
		if setter == nil {
			return []Obs{{"k": "attrrt", "same": true, "na": true}}, nil
		}
		m := &stun.Message{}
		m.TransactionID = [12]byte{9, 8, 7, 6, 5, 4, 3, 2, 1, 0, 1, 2}
		if err := setter.AddTo(m); err != nil {
			return []Obs{{"k": "attrrt", "same": false, "why": "AddTo: " + err.Error()}}, nil
		}
		got, err := getFrom(attr, m)
		same := err == nil && fmt.Sprint(got) == fmt.Sprint(want)

		return []Obs{{"k": "attrrt", "same": same, "why": fmt.Sprintf("encoded %v, decoded %v err=%v", want, got, err)}}, nil
	}

	return nil, fmt.Errorf("unknown codec action %v", a["a"])
}

func (s *codecSys) Check(e Edge, obs []Obs) []Mismatch {
	ms := s.sweep
	s.sweep = nil
	if len(obs) != 1 || len(e.O) != 1 {
		return append(ms, Mismatch{"harness", "codec case without a verdict"})
	}
	want, _ := e.O[0].(map[string]any)
	o := obs[0]
	desc := canon(e.A)
	b := func(m map[string]any, k string) bool { v, _ := m[k].(bool); return v }
	switch want["k"] {
	case "cd":
		if toInt(o["wire"]) != toInt(want["wire"]) {
			ms = append(ms, Mismatch{"codec", fmt.Sprintf("%s: encoded %v bytes, spec %v", desc, o["wire"], want["wire"])})
		}
		if toInt(o["lenfield"]) != toInt(want["lenfield"]) || toInt(o["numfield"]) != toInt(e.A["num"]) {
			ms = append(ms, Mismatch{"codec", fmt.Sprintf("%s: header number %v length %v", desc, o["numfield"], o["lenfield"])})
		}
		if !b(o, "padzero") {
			ms = append(ms, Mismatch{"codec", desc + ": padding bytes are not zero"})
		}
		if !b(o, "payload") {
			ms = append(ms, Mismatch{"codec", desc + ": payload bytes on the wire differ"})
		}
		if b(o, "decodes") != b(want, "decodes") || b(o, "ischan") != b(want, "decodes") {
			ms = append(ms, Mismatch{"codec", fmt.Sprintf("%s: decodes=%v IsChannelData=%v, spec %v", desc, o["decodes"], o["ischan"], want["decodes"])})
		} else if b(o, "decodes") && !b(o, "same") {
			ms = append(ms, Mismatch{"codec", desc + ": Decode(Encode(x)) differs from x"})
		}
	case "cdraw":
		if b(o, "ok") != b(want, "ok") || b(o, "ischan") != b(want, "ok") {
			ms = append(ms, Mismatch{"codec", fmt.Sprintf("%s: Decode ok=%v (%v) IsChannelData=%v, spec ok=%v", desc, o["ok"], o["err"], o["ischan"], want["ok"])})
		} else if b(o, "ok") && (toInt(o["data"]) != toInt(want["data"]) || !b(o, "exact")) {
			ms = append(ms, Mismatch{"codec", fmt.Sprintf("%s: decoded %v bytes, spec exactly the %v declared", desc, o["data"], want["data"])})
		}
		if v, ok := o["capsame"].(bool); ok && !v {
			ms = append(ms, Mismatch{"codec", fmt.Sprintf("%s: the outcome depends on what lies beyond the received bytes in the receive buffer (spare capacity of the slice)", desc)})
		}
	case "attr":
		if e, _ := o["err"].(string); strings.HasPrefix(e, "PANIC") {
			ms = append(ms, Mismatch{"codec", fmt.Sprintf("%s: GetFrom panics instead of returning an error (%v)", desc, e)})
		}
		if b(o, "ok") != b(want, "ok") {
			ms = append(ms, Mismatch{"codec", fmt.Sprintf("%s: GetFrom ok=%v (err %v, value %v), spec ok=%v", desc, o["ok"], o["err"], o["got"], want["ok"])})
		}
		if r, has := want["reserve"]; has && b(o, "ok") && r != "free" {
			if got := fmt.Sprint(o["got"]); (r == "yes") != (got == "true") {
				ms = append(ms, Mismatch{"codec", fmt.Sprintf("%s: decoded as %q, the R bit says reserve=%v (a silently different value)", desc, got, r)})
			}
		}
	case "attrrt":
		if !b(o, "same") {
			ms = append(ms, Mismatch{"codec", fmt.Sprintf("%s: %v", desc, o["why"])})
		}
	}

	return ms
}
