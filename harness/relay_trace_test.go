package verifx

import (
	"bytes"
	"crypto/sha256"
	"errors"
	"fmt"
	"io"
	"math/rand"
	"net"
	"os"
	"strings"
	"testing"
	"testing/synctest"
	"time"

	turn "github.com/pion/turn/v5"
)

// Engine B driver for C05 (end to end): application datagrams of boundary and random lengths and
// of awkward contents go through the REAL client's relayed socket, the real server and memnet peers,
// in both directions, over a datagram or a stream transport between client and server, singly and in
// bursts that arrive before the application reads.  Every send and every arrival is logged with the
// identity of the payload and whether the bytes are intact; TraceRelay.tla decides.

var relayLens = []int{0, 1, 3, 4, 5, 8, 31, 32, 100, 1199, 1200, 1499, 1500, 1551, 1552, 1553, 1560, 1592, 1593, 1596, 1599, 1600, 1601, 2000, 9000}

func relayPayload(seed int64, id string, n int, rng *rand.Rand) []byte {
	out := make([]byte, 0, n+32)
	for c := 0; len(out) < n; c++ {
		h := sha256.Sum256([]byte(fmt.Sprintf("relay/%d/%s/%d", seed, id, c)))
		out = append(out, h[:]...)
	}
	out = out[:n]
	switch rng.Intn(6) {
	case 5: // begins with the STUN magic cookie: bytes 4..7 of a ChannelData frame that carries it are a STUN message's
		copy(out, []byte{0x21, 0x12, 0xa4, 0x42})
	case 0: // looks like a STUN header
		copy(out, []byte{0x00, 0x01, 0x00, 0x08, 0x21, 0x12, 0xa4, 0x42})
	case 1: // looks like a ChannelData header
		copy(out, []byte{0x40, 0x00, 0x00, 0x04})
	case 2:
		for i := range out {
			out[i] = 0
		}
	}

	return out
}

type relayPeer struct {
	name string
	conn *MemConn
}

func runRelayExecution(t *testing.T, seed int64, log *traceLog) {
	t.Helper()
	synctest.Test(t, func(t *testing.T) {
		rng := rand.New(rand.NewSource(seed)) //nolint:gosec
		stream := rng.Intn(2) == 0
		mtu := []int{0, 0, 1200}[rng.Intn(3)] // 0 = the default 1600
		mn := NewMemNet()
		w := &World{Net: mn}
		gen := &memGen{w: w, ip4: net.IPv4(10, 0, 0, 1).To4(), ip6: net.ParseIP("fd00::1"), Conns: map[string]*MemConn{}}
		cfg := turn.ServerConfig{
			Realm: realm, LoggerFactory: quietLoggerFactory{}, InboundMTU: mtu,
			AuthHandler: func(ra *turn.RequestAttributes) (string, []byte, bool) {
				return ra.Username, turn.GenerateAuthKey(ra.Username, ra.Realm, "pw-"+ra.Username), true
			},
		}
		var cconn net.PacketConn
		var closers []func()
		saddr := "10.0.0.1:3478"
		if stream {
			lis, err := mn.ListenTCP(&net.TCPAddr{IP: net.IPv4(10, 0, 0, 1).To4(), Port: 3478})
			if err != nil {
				t.Fatal(err)
			}
			cfg.ListenerConfigs = []turn.ListenerConfig{{Listener: lis, RelayAddressGenerator: gen}}
		} else {
			cfg.PacketConnConfigs = []turn.PacketConnConfig{{PacketConn: mn.MustListen(&net.UDPAddr{IP: net.IPv4(10, 0, 0, 1).To4(), Port: 3478}), RelayAddressGenerator: gen}}
		}
		srv, err := turn.NewServer(cfg)
		if err != nil {
			t.Fatal(err)
		}
		if stream {
			st, err := mn.DialTCP(&net.TCPAddr{IP: net.IPv4(10, 0, 0, 11).To4(), Port: 40001}, &net.TCPAddr{IP: net.IPv4(10, 0, 0, 1).To4(), Port: 3478})
			if err != nil {
				t.Fatal(err)
			}
			cconn = turn.NewSTUNConn(st)
			closers = append(closers, func() { _ = st.Close() })
		} else {
			c := mn.MustListen(&net.UDPAddr{IP: net.IPv4(10, 0, 0, 11).To4(), Port: 40001})
			cconn = c
			closers = append(closers, func() { _ = c.Close() })
		}
		cl, err := turn.NewClient(&turn.ClientConfig{
			STUNServerAddr: saddr, TURNServerAddr: saddr, Conn: cconn, Username: "u1", Password: "pw-u1", Realm: realm,
			LoggerFactory: quietLoggerFactory{}, Net: newFakeNet(),
		})
		if err != nil {
			t.Fatal(err)
		}
		if err := cl.Listen(); err != nil {
			t.Fatal(err)
		}
		relay, err := cl.Allocate()
		if err != nil {
			t.Fatalf("allocate (stream=%v): %v", stream, err)
		}
		relayAddr, _ := relay.LocalAddr().(*net.UDPAddr)
		limit := 1600
		if mtu != 0 {
			limit = mtu
		}
		log.add(map[string]any{"e": "Reset", "seed": seed, "stream": stream, "mtu": limit})
		peers := []relayPeer{}
		for i, n := range []string{"A1", "A2", "B1"} {
			ip := net.IPv4(10, 1, 0, byte(1+i/2)).To4()
			peers = append(peers, relayPeer{n, mn.MustListen(&net.UDPAddr{IP: ip, Port: 5001 + i%2})})
		}
		sent := map[string][]byte{}
		n := 0
		newPay := func(prefix string) (string, []byte) {
			n++
			id := fmt.Sprintf("%s%d", prefix, n)
			l := relayLens[rng.Intn(len(relayLens))]
			if rng.Intn(3) == 0 {
				l = rng.Intn(1700)
			}
			p := relayPayload(seed, id, l, rng)
			sent[id] = p
			if l >= 16 { // a unique tail keeps long payloads distinguishable whatever their head looks like
				copy(p[l-8:], []byte(fmt.Sprintf("%08d", n)))
			}

			return id, p
		}
		type sentRec struct {
			pay      []byte
			dir, end string
		}
		sentMeta := map[string]sentRec{}
		gotID := map[string]bool{}
		// identify names an arrival: a payload that was submitted in that direction for that endpoint, is
		// byte-identical and has not arrived yet (short or all-zero payloads are not unique by content)
		identify := func(b []byte, dir, end string) (string, bool) {
			for pass := 0; pass < 3; pass++ {
				for id, r := range sentMeta {
					if !bytes.Equal(r.pay, b) || (pass == 0 && gotID[id]) {
						continue
					}
					if pass <= 1 && (r.dir != dir || r.end != end) {
						continue
					}
					gotID[id] = true

					return id, true
				}
			}
			for id, r := range sentMeta { // altered: name it after what it starts like
				if len(r.pay) > 8 && len(b) >= 8 && bytes.Equal(r.pay[:8], b[:8]) && r.dir == dir {
					return id, false
				}
			}

			return fmt.Sprintf("?len%d", len(b)), false
		}
		drainPeers := func() {
			for _, p := range peers {
				for _, pk := range p.conn.Drain() {
					id, intact := identify(pk.Data, "c2p", p.name)
					log.add(map[string]any{"e": "Recv", "at": p.name, "id": id, "intact": intact, "fromrelay": pk.From.String() == relayAddr.String(), "len": len(pk.Data)})
				}
			}
		}
		// only is the id of the one datagram that can be queued (or ""): then the first read may use a buffer
		// that is too small for it
		readClient := func(max int, only string) {
			for i := 0; i < max; i++ {
				_ = relay.SetReadDeadline(time.Now().Add(time.Millisecond))
				buf := make([]byte, 70000)
				if only != "" && i == 0 && rng.Intn(3) == 0 { // an application buffer that some datagrams do not fit in
					buf = make([]byte, []int{1, 100, 1200, 1500}[rng.Intn(4)])
				}
				k, from, err := relay.ReadFrom(buf)
				if errors.Is(err, io.ErrShortBuffer) {
					log.add(map[string]any{"e": "Short", "buf": len(buf), "id": only})

					continue
				}
				if err != nil {
					return
				}
				src := "?"
				for _, p := range peers {
					if p.conn.addr.String() == from.String() {
						src = p.name
					}
				}
				id, intact := identify(buf[:k], "p2c", src)
				log.add(map[string]any{"e": "Recv", "at": "client", "id": id, "intact": intact, "from": src, "len": k})
			}
		}
		written := map[string]bool{}
		for op := 0; op < 60; op++ {
			p := peers[rng.Intn(len(peers))]
			switch x := rng.Intn(10); {
			case x < 4 || !written[p.name]: // client -> peer
				id, pay := newPay("o")
				sentMeta[id] = sentRec{pay, "c2p", p.name}
				log.add(map[string]any{"e": "Send", "dir": "c2p", "id": id, "len": len(pay), "to": p.name})
				_, werr := relay.WriteTo(pay, p.conn.addr)
				written[p.name] = true
				time.Sleep(time.Duration(rng.Intn(900)) * time.Millisecond)
				synctest.Wait()
				if werr != nil {
					log.add(map[string]any{"e": "Note", "what": "WriteTo error", "id": id, "err": werr.Error()})
				}
				drainPeers()
			case x < 8: // peer -> client, read at once
				id, pay := newPay("i")
				sentMeta[id] = sentRec{pay, "p2c", p.name}
				log.add(map[string]any{"e": "Send", "dir": "p2c", "id": id, "len": len(pay), "from": p.name})
				_, _ = p.conn.WriteTo(pay, relayAddr)
				synctest.Wait()
				readClient(3, id)
			default: // a burst from several peers that arrives before the application reads
				k := 3 + rng.Intn(6)
				for b := 0; b < k; b++ {
					q := peers[rng.Intn(len(peers))]
					if !written[q.name] {
						continue
					}
					id, pay := newPay("b")
					sentMeta[id] = sentRec{pay, "p2c", q.name}
					log.add(map[string]any{"e": "Send", "dir": "p2c", "id": id, "len": len(pay), "from": q.name})
					_, _ = q.conn.WriteTo(pay, relayAddr)
					synctest.Wait()
				}
				time.Sleep(time.Duration(rng.Intn(3000)) * time.Millisecond)
				synctest.Wait()
				readClient(k+3, "")
			}
		}
		time.Sleep(2 * time.Second)
		synctest.Wait()
		drainPeers()
		readClient(50, "")
		log.add(map[string]any{"e": "End"})
		_ = relay.Close()
		synctest.Wait()
		cl.Close()
		for _, c := range closers {
			c()
		}
		_ = srv.Close()
		for _, p := range peers {
			_ = p.conn.Close()
		}
		synctest.Wait()
	})
}

// TestRelayTrace records VERIF_NTRACES executions into VERIF_TRACE_OUT.
func TestRelayTrace(t *testing.T) {
	out := os.Getenv("VERIF_TRACE_OUT")
	if out == "" {
		t.Skip("VERIF_TRACE_OUT not set")
	}
	startWatchdogFor(t)
	seed := envInt("VERIF_SEED", 1)
	n := int(envInt("VERIF_NTRACES", 16))
	log := &traceLog{}
	flushTrace = func() {
		log.mu.Lock()
		defer log.mu.Unlock()
		_ = os.WriteFile(out, []byte(strings.Join(log.lines, "\n")+"\n"), 0o644)
	}
	for i := 0; i < n; i++ {
		markProgress(fmt.Sprintf("relay execution %d", i))
		runRelayExecution(t, seed*1000+int64(i), log)
	}
	markProgress("")
	flushTrace()
	t.Logf("recorded %d executions, %d events", n, len(log.lines))
}
