package verifx

import (
	"fmt"
	"net"
	"sort"
	"strings"
)

// Mismatch is one difference between what the spec allows and what the code did.
type Mismatch struct {
	Kind   string `json:"kind"`
	Detail string `json:"detail"`
}

// Kinds of mismatch and the properties whose statement each contradicts.
//
//	alloc+ / alloc-        an allocation exists / is missing             C06 (C19 for a second allocation)
//	alloc~                 user or family differ                          C06 C03
//	perm+ / perm-          a permission exists / is missing               C07 (+ C01 C02 for perm+)
//	chan+ / chan- / chan~  channel binding extra / missing / other peer   C08 C07 (+ C01 C02 for + and ~)
//	peerout+ - ~           datagram toward a peer extra / missing / wrong C01 (+) C05 C07 (-)
//	cliout+ - ~            data toward a client extra / missing / wrong   C02 (+) C05 C07 (-)
//	resp+ resp-            response extra / missing                        C19
//	resp.class resp.code resp.txid resp.mapped resp.relay resp.life       C19 + the method's property
//	bystander              anything above on a client that did not act    C04
//	count                  AllocationCount differs from live allocations  C15 C04
//	locks                  a lock is still held at a quiescent point      C18
var owners = map[string][]string{
	"alloc+":      {"C06", "C19", "C03", "C15"}, // (C15: an allocation that is still there after the cause that ends it)
	"alloc-":      {"C06", "C03", "C19"},        // (C19: an Allocate success reports the lifetime actually in force)
	"alloc~":      {"C06", "C03"},
	"alloc.owner": {"C06", "C03", "C04", "C19"}, // the allocation of a 5-tuple has been replaced by another user's
	"perm+":       {"C07", "C01", "C02", "C03", "C06"},
	"perm-":       {"C07", "C03"},
	"chan+":       {"C08", "C07", "C01", "C02", "C03", "C06"},
	"chan-":       {"C08", "C07", "C03"},
	"chan~":       {"C08", "C01", "C02"},
	"peerout+":    {"C01", "C05", "C06", "C07"},
	"peerout-":    {"C05", "C07", "C06"},
	"peerout~":    {"C05", "C01"},
	"cliout+":     {"C02", "C05", "C06", "C07"},
	"cliout-":     {"C05", "C07", "C06"},
	"cliout~":     {"C05", "C02", "C08"},
	"resp+":       {"C19"},
	"resp-":       {"C19"},
	"resp.class":  {"C19"},
	"resp.code":   {"C19"},
	"resp.txid":   {"C19"},
	"resp.mapped": {"C19", "C04"}, // (C04: an answer that names another 5-tuple's addresses)
	"resp.relay":  {"C19", "C04"},
	"resp.life":   {"C19", "C06"},
	"resp.token":  {"C19"},
	"bystander":   {"C04"},
	"count":       {"C15", "C04"},
	"locks":       {"C18", "C16", "C09"},
	"hang":        {"C18", "C09"},
	"hang.lock":   {"C18", "C09", "C16"},
	"junk":        {"C19", "C05"},
	"events":      {"C15", "C06"},
	"afterclose":  {"C15"},
	"events.late": {"C15", "C06"},
	"resources":   {"C15"},
	"challenge":   {"C03"},
}

// methodOwners: a wrong answer (class / pinned code) to a request of this method also
// contradicts the property that pins that method's outcomes.
var methodOwners = map[string][]string{
	"Allocate":         {"C06", "C19"},
	"Refresh":          {"C06"},
	"CreatePermission": {"C07", "C01"},
	"ChannelBind":      {"C08", "C07", "C01"},
	"Binding":          {"C19"},
	"Connect":          {"C16", "C01"},
	"ConnectionBind":   {"C16"},
}

// familyHangOwner: the property whose own machine a family of behaviours exercises.  When a replayed step of that
// family never finishes (goroutines stuck on a lock), the outcome the property's specification prescribes for the step
// has not materialised: a hang is a divergence for that property too (C12 "never hangs", C13 "never blocks the inbound
// path", C14 "data keeps flowing", C16 "keeps serving"), besides the properties that speak about liveness in general.
func familyHangOwner(family string) string {
	switch {
	case strings.HasPrefix(family, "clienttxn"):
		return "C12"
	case strings.HasPrefix(family, "tcp"):
		return "C16"
	}

	return ""
}

// OwnedBy reports whether mismatch m, found at action a, contradicts property prop.
func OwnedBy(m Mismatch, a map[string]any, prop string) bool {
	if prop == "" || prop == "ALL" {
		return true
	}
	if (m.Kind == "hang" || m.Kind == "hang.lock" || m.Kind == "txn.hang") && prop == familyHangOwner(walkFamily) {
		return true
	}
	if name, _ := a["a"].(string); name == "ChannelBind" && prop == "C08" &&
		(strings.HasPrefix(m.Kind, "perm") || strings.HasPrefix(m.Kind, "chan")) {
		return true // a ChannelBind leaves the tables as C08 says: conflicting ones change nothing
	}
	if name, _ := a["a"].(string); name == "BadCred" && prop == "C03" {
		return true // a request with defective credentials had an effect or a wrong answer
	}
	if m.Kind == "nonce" && prop == "C03" {
		return true
	}
	if m.Kind == "relaygen.adv" && (prop == "C05" || prop == "C19") {
		return true // the advertised relayed address is not where the relay socket is: peers see another source, answers go nowhere
	}
	if strings.HasPrefix(m.Kind, "relaygen") && (prop == "C20" || ((prop == "C19" || prop == "C04") && m.Kind == "relaygen.shared")) {
		return true // (C19: the relayed address of an Allocate success is one no other live allocation has; C04: what arrives there goes to its owner only)
	}
	if strings.HasPrefix(m.Kind, "framer") && (prop == "C10" || (prop == "C09" && m.Kind == "framer.spin")) {
		return true
	}
	if strings.HasPrefix(m.Kind, "tcp.") {
		if prop == "C16" {
			return true
		}
		if prop == "C02" && (m.Kind == "tcp.inbound+" || m.Kind == "tcp.attempt~") {
			return true
		}
		if name, _ := a["a"].(string); prop == "C01" && name == "Connect" && (m.Kind == "tcp.conn+" || m.Kind == "tcp.extra") {
			return true // a connection toward a peer the spec says is refused
		}
		if prop == "C15" && (m.Kind == "tcp.close-" || m.Kind == "tcp.conn+") {
			return true
		}
		if (prop == "C03" || prop == "C04") && (m.Kind == "tcp.bind" || m.Kind == "tcp.bound") {
			return true
		}
		if prop == "C03" && m.Kind == "tcp.nonowner" {
			return true // a request of a user who does not own the allocation had an effect
		}
		if prop == "C05" && m.Kind == "tcp.pipe~" {
			return true
		}

		return false
	}
	if m.Kind == "reaper.sockets" && prop == "C04" {
		return true // more than one allocation's relay socket for one 5-tuple
	}
	if strings.HasPrefix(m.Kind, "reaper") && (prop == "C06" || prop == "C15" || prop == "C19") {
		return true // an allocation ended by something else than its lifetime or Refresh 0 / a straggler that acts
	}
	if strings.HasPrefix(m.Kind, "txn") && (prop == "C12" || ((prop == "C18" || prop == "C09") && m.Kind == "txn.hang")) {
		return true
	}
	if strings.HasPrefix(m.Kind, "steps.") {
		switch prop {
		case "C18":
			return true
		case "C15":
			return m.Kind == "steps.events" || m.Kind == "steps.state"
		case "C07", "C06":
			return m.Kind == "steps.state" || m.Kind == "steps.resp"
		}

		return false
	}
	if strings.HasPrefix(m.Kind, "dispatch.") && (prop == "C09" || (prop == "C18" && m.Kind == "dispatch.hang")) {
		return true
	}
	if m.Kind == "codec" && prop == "C11" {
		return true
	}
	if m.Kind == "ltcred" && prop == "C17" {
		return true
	}
	for _, p := range owners[m.Kind] {
		if p == prop {
			return true
		}
	}
	if strings.HasPrefix(m.Kind, "resp.") || m.Kind == "resp-" || m.Kind == "resp+" {
		if name, _ := a["a"].(string); name != "" {
			for _, p := range methodOwners[name] {
				if p == prop && (m.Kind == "resp.class" || m.Kind == "resp.code" || m.Kind == "resp-") {
					return true
				}
			}
		}
	}

	return false
}

func actorOf(a map[string]any) string {
	c, _ := a["c"].(string)

	return c
}

// CompareState compares the projected real state with the spec state ts = [alloc, perm, chan].
func CompareState(ts []any, pr Proj, actor string, isAdvance bool) []Mismatch {
	var ms []Mismatch
	add := func(c, kind, detail string) {
		ms = append(ms, Mismatch{kind, c + ": " + detail})
		if !isAdvance && c != actor {
			ms = append(ms, Mismatch{"bystander", c + ": " + kind + " " + detail})
		}
	}
	alloc, _ := ts[0].(map[string]any)
	perm, _ := ts[1].(map[string]any)
	chn, _ := ts[2].(map[string]any)
	live := 0
	cs := make([]string, 0, len(alloc))
	for c := range alloc {
		cs = append(cs, c)
	}
	sort.Strings(cs)
	for _, c := range cs {
		ea, _ := alloc[c].(map[string]any)
		got := pr.C[c]
		elive, _ := ea["live"].(bool)
		if elive {
			live++
		}
		switch {
		case elive && !got.Live:
			add(c, "alloc-", "spec has a live allocation, the server has none")
		case !elive && got.Live:
			add(c, "alloc+", "the server has an allocation (user "+got.User+"), the spec has none")
		case elive && got.Live:
			if eu, _ := ea["user"].(string); eu != got.User {
				add(c, "alloc.owner", fmt.Sprintf("owner: spec %s, server %s", eu, got.User))
			}
			if ef := toInt(ea["fam"]); ef != got.Fam {
				add(c, "alloc~", fmt.Sprintf("family: spec %d, server %d", ef, got.Fam))
			}
		}
		// permissions
		ep, _ := perm[c].(map[string]any)
		gotP := map[string]bool{}
		for _, i := range got.Perms {
			gotP[i] = true
		}
		ips := make([]string, 0, len(ep))
		for i := range ep {
			ips = append(ips, i)
		}
		sort.Strings(ips)
		for _, i := range ips {
			want := toInt(ep[i]) > 0
			switch {
			case want && !gotP[i]:
				add(c, "perm-", "permission for "+i+" missing")
			case !want && gotP[i]:
				add(c, "perm+", "permission for "+i+" present")
			}
			delete(gotP, i)
		}
		for i := range gotP {
			add(c, "perm+", "permission for "+i+" present (not a model IP)")
		}
		// channels
		ec, _ := chn[c].(map[string]any)
		gotC := map[int][]any{}
		for n, p := range got.Chans {
			gotC[n] = p
		}
		ns := make([]string, 0, len(ec))
		for n := range ec {
			ns = append(ns, n)
		}
		sort.Strings(ns)
		for _, nstr := range ns {
			n := toInt(nstr)
			rec, _ := ec[nstr].(map[string]any)
			bound, _ := rec["bound"].(bool)
			gp, has := gotC[n]
			switch {
			case bound && !has:
				add(c, "chan-", fmt.Sprintf("channel %d missing", n))
			case !bound && has:
				add(c, "chan+", fmt.Sprintf("channel %d bound to %v", n, gp))
			case bound && has:
				if canon(rec["peer"]) != canon(gp) {
					add(c, "chan~", fmt.Sprintf("channel %d: spec peer %v, server %v", n, rec["peer"], gp))
				}
			}
			delete(gotC, n)
		}
		for n, gp := range gotC {
			add(c, "chan+", fmt.Sprintf("channel %d bound to %v", n, gp))
		}
	}
	for _, x := range pr.Extra {
		ms = append(ms, Mismatch{"alloc+", "allocation for a 5-tuple no client used: " + x},
			Mismatch{"bystander", "allocation for a 5-tuple no client used: " + x})
	}
	if pr.Count != live+len(pr.Extra) && len(ms) == 0 {
		ms = append(ms, Mismatch{"count", fmt.Sprintf("AllocationCount()=%d, live allocations=%d", pr.Count, live)})
	}
	if !pr.Locks {
		ms = append(ms, Mismatch{"locks", "a manager or allocation lock is held at a quiescent point"})
	}

	return ms
}

func outKey(o map[string]any) string {
	switch o["k"] {
	case "topeer":
		return fmt.Sprintf("topeer|%v|%s|%v", o["from"], canon(o["to"]), o["pay"])
	case "toclient":
		return fmt.Sprintf("toclient|%v|%v|%d|%s|%v", o["to"], o["via"], toInt(o["n"]), canon(o["peer"]), o["pay"])
	}

	return canon(o)
}

// CompareOut compares the outputs observed at every endpoint with the spec's out set.
func CompareOut(exp []any, obs []Obs, pr Proj, w *World, a map[string]any) []Mismatch {
	var ms []Mismatch
	actor := actorOf(a)
	var eResp []map[string]any
	eData := map[string]int{}
	for _, e := range exp {
		m, _ := e.(map[string]any)
		if m["k"] == "resp" {
			eResp = append(eResp, m)
		} else {
			eData[outKey(m)]++
		}
	}
	// beyond the documented size limits the properties allow "whole or not at all": the spec's
	// actions choose "not at all"; an intact delivery of exactly the expected record is accepted too
	beyond, _ := a["beyond"].(bool)
	var oResp []Obs
	for _, o := range obs {
		if beyond && (o["k"] == "topeer" || o["k"] == "toclient") && isPayID(o["pay"], a) && len(exp) == 0 {
			continue
		}
		switch o["k"] {
		case "resp":
			oResp = append(oResp, o)
		case "junk":
			ms = append(ms, Mismatch{"junk", fmt.Sprintf("%v received something undecodable/unexpected: %v", o["to"], o["why"])})
			if o["to"] != actor {
				ms = append(ms, Mismatch{"bystander", fmt.Sprintf("%v received %v", o["to"], o["why"])})
			}
		case "toclient":
			mo := map[string]any(o)
			k := outKey(mo)
			if o["via"] == "chan" {
				// the peer of a ChannelData is implied by the number: take it from the expectation
				for ek := range eData {
					if strings.HasPrefix(ek, fmt.Sprintf("toclient|%v|chan|%d|", o["to"], toInt(o["n"]))) &&
						strings.HasSuffix(ek, fmt.Sprintf("|%v", o["pay"])) {
						k = ek
					}
				}
			}
			if eData[k] > 0 {
				eData[k]--

				continue
			}
			// C02/C05 allow the Data indication with the true source where a channel is bound
			if o["via"] == "ind" {
				alt := ""
				for ek, n := range eData {
					if n > 0 && strings.HasPrefix(ek, fmt.Sprintf("toclient|%v|chan|", o["to"])) &&
						strings.HasSuffix(ek, fmt.Sprintf("|%s|%v", canon(o["peer"]), o["pay"])) {
						alt = ek
					}
				}
				if alt != "" {
					eData[alt]--

					continue
				}
			}
			kind := "cliout+"
			if sameButPayload(eData, k) {
				kind = "cliout~"
			}
			// the datagram the spec expects, to this client, in another encapsulation or under another channel
			// number / peer address: wrong attribution (the expectation is used up: one fault, one report)
			for ek, n := range eData {
				if n > 0 && strings.HasPrefix(ek, fmt.Sprintf("toclient|%v|", o["to"])) && strings.HasSuffix(ek, fmt.Sprintf("|%v", o["pay"])) {
					kind = "cliout~"
					eData[ek]--

					break
				}
			}
			ms = append(ms, Mismatch{kind, "unexpected toward client: " + k})
			if o["to"] != actor {
				ms = append(ms, Mismatch{"bystander", "data delivered to " + fmt.Sprint(o["to"])})
			}
		case "topeer":
			k := outKey(map[string]any(o))
			if eData[k] > 0 {
				eData[k]--

				continue
			}
			kind := "peerout+"
			if sameButPayload(eData, k) {
				kind = "peerout~"
			}
			ms = append(ms, Mismatch{kind, "unexpected toward peer: " + k})
			if o["from"] != actor {
				ms = append(ms, Mismatch{"bystander", "datagram left from the relay of " + fmt.Sprint(o["from"])})
			}
		}
	}
	for k, n := range eData {
		if n > 0 {
			kind := "peerout-"
			if strings.HasPrefix(k, "toclient") {
				kind = "cliout-"
			}
			ms = append(ms, Mismatch{kind, "expected but not observed: " + k})
		}
	}
	// responses: at most one expected
	for _, o := range oResp {
		if o["to"] != actor {
			ms = append(ms, Mismatch{"resp+", fmt.Sprintf("response delivered to %v, request came from %v", o["to"], actor)},
				Mismatch{"bystander", fmt.Sprintf("response delivered to %v", o["to"])})

			continue
		}
		if len(eResp) == 0 {
			if o["cls"] == "ok" {
				ms = append(ms, Mismatch{"resp.class", fmt.Sprintf("spec: no success (silence or an error); server answered success to %v", o["m"])})
			}
			// an error where the spec expects silence-or-error is allowed (NoSuccess)
			continue
		}
		e := eResp[0]
		eResp = eResp[1:]
		if ok, _ := o["txok"].(bool); !ok {
			ms = append(ms, Mismatch{"resp.txid", "response carries another transaction id"})
		}
		if o["m"] != e["m"] {
			ms = append(ms, Mismatch{"resp.class", fmt.Sprintf("method: spec %v, server %v", e["m"], o["m"])})
		}
		if o["cls"] != e["cls"] {
			ms = append(ms, Mismatch{"resp.class", fmt.Sprintf("%v: spec %v, server %v (code %v)", e["m"], e["cls"], o["cls"], o["code"])})

			continue
		}
		if toInt(e["code"]) == -1 { // a challenge: 401 or 438, with a nonce and this server's realm
			if oc := toInt(o["code"]); oc != 401 && oc != 438 {
				ms = append(ms, Mismatch{"resp.code", fmt.Sprintf("%v: spec 401/438 challenge, server %v", e["m"], o["code"])})
			}
			if n, _ := o["nonce"].(string); n == "" {
				ms = append(ms, Mismatch{"challenge", "challenge without NONCE"})
			}
			if r, _ := o["realm"].(string); r != realm {
				ms = append(ms, Mismatch{"challenge", fmt.Sprintf("challenge REALM %q", o["realm"])})
			}
		} else if ec := toInt(e["code"]); ec != 0 && ec != toInt(o["code"]) {
			ms = append(ms, Mismatch{"resp.code", fmt.Sprintf("%v: spec %d, server %v", e["m"], ec, o["code"])})
		}
		if el, ok := e["life"]; ok && toInt(el) >= 0 {
			if ol, has := o["life"]; !has || toInt(ol) != toInt(el) {
				ms = append(ms, Mismatch{"resp.life", fmt.Sprintf("%v LIFETIME: spec %d, server %v", e["m"], toInt(el), o["life"])})
			}
		}
		if em, ok := e["mapped"]; ok && o["mapped"] != em {
			ms = append(ms, Mismatch{"resp.mapped", fmt.Sprintf("XOR-MAPPED-ADDRESS: spec %v, server %v", em, o["mapped"])})
		}
		if _, ok := e["relay"]; ok {
			ra, _ := o["relayaddr"].(*net.UDPAddr)
			switch {
			case ra == nil:
				ms = append(ms, Mismatch{"resp.relay", "no XOR-RELAYED-ADDRESS in an Allocate success"})
			case pr.C[actor].Relay != ra.String():
				ms = append(ms, Mismatch{"resp.relay", fmt.Sprintf("advertised %v, allocation's relay %q", ra, pr.C[actor].Relay)})
			default:
				for c, st := range pr.C {
					if c != actor && st.Live && st.Relay == ra.String() {
						ms = append(ms, Mismatch{"resp.relay", "relayed address shared with " + c})
					}
				}
			}
		}
		if pc, ok := e["port"].([]any); ok && len(pc) > 0 {
			ra, _ := o["relayaddr"].(*net.UDPAddr)
			_, hasTok := o["token"].(string)
			switch pc[0] {
			case "even":
				switch {
				case ra != nil && ra.Port%2 != 0:
					ms = append(ms, Mismatch{"resp.relay", fmt.Sprintf("EVEN-PORT requested, relayed port %d is odd", ra.Port)})
				case !hasTok:
					ms = append(ms, Mismatch{"resp.token", "success for an EVEN-PORT allocation without RESERVATION-TOKEN (on a retransmission: the same success again is required)"})
				case o["tokenchanged"] == true:
					ms = append(ms, Mismatch{"resp.token", "the retransmitted success carries another RESERVATION-TOKEN"})
				}
			case "next":
				d := fmt.Sprint(pc[1])
				if ra != nil && ra.Port != w.evenPort[d]+1 {
					ms = append(ms, Mismatch{"resp.relay", fmt.Sprintf("RESERVATION-TOKEN of %s: relayed port %d, reserved %d", d, ra.Port, w.evenPort[d]+1)})
				}
				if hasTok {
					ms = append(ms, Mismatch{"resp.token", "RESERVATION-TOKEN in the answer to a request that did not ask for a reservation"})
				}
			default:
				if hasTok {
					ms = append(ms, Mismatch{"resp.token", "RESERVATION-TOKEN in the answer to a request that did not ask for a reservation"})
				}
			}
		}
		if e["cls"] == "ok" && e["m"] != "Binding" && e["m"] != "ConnectionBind" && o["mi"] != true {
			ms = append(ms, Mismatch{"resp.class", fmt.Sprintf("%v success without MESSAGE-INTEGRITY", e["m"])})
		}
	}
	for _, e := range eResp {
		ms = append(ms, Mismatch{"resp-", fmt.Sprintf("no %v response (spec: %v %v)", e["m"], e["cls"], e["code"])})
	}

	return ms
}

func isPayID(v any, a map[string]any) bool {
	s, ok := v.(string)

	return ok && s == a["pay"]
}

// sameButPayload: an expected record that differs from k only in its last field (payload).
func sameButPayload(eData map[string]int, k string) bool {
	i := strings.LastIndex(k, "|")
	if i < 0 {
		return false
	}
	for ek, n := range eData {
		if n > 0 && strings.HasPrefix(ek, k[:i+1]) {
			return true
		}
	}

	return false
}
