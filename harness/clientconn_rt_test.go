package verifx

import (
	"fmt"
	"math/rand"
	"net"
	"os"
	"strings"
	"sync"
	"sync/atomic"
	"testing"
	"time"

	turn "github.com/pion/turn/v5"
)

// Engine B driver for C13 in REAL time (spec/TraceClientConn.tla, the same trace specification as the
// virtual-time driver): sixteen application goroutines write to the relayed socket AT THE SAME INSTANT, round
// after round, each to a peer nobody has written to before (its own IP), against a scripted server that
// grants everything.  The bookkeeping that all writers share -- permission map, channel-number assignment,
// binding tables -- is hit by truly parallel callers, which no virtual-time schedule produces.  What the
// server saw on the wire (CreatePermission / ChannelBind requests with their numbers and peers, Send
// indications, ChannelData) and the WriteTo calls and returns are logged under one lock; TLC decides whether
// the execution is a behaviour of ClientConn.tla (in particular: every peer its own channel number).

func runClientConnRT(t *testing.T, seed int64, log *traceLog) {
	t.Helper()
	rng := rand.New(rand.NewSource(seed)) //nolint:gosec
	mn := NewMemNet()
	saddr := &net.UDPAddr{IP: net.IPv4(10, 0, 0, 1).To4(), Port: 3478}
	caddr := &net.UDPAddr{IP: net.IPv4(10, 0, 0, 11).To4(), Port: 40001}
	sconn, cconn := mn.MustListen(saddr), mn.MustListen(caddr)
	srv := &ccServer{conn: sconn, client: caddr, log: log, rng: rng, relayed: &net.UDPAddr{IP: net.IPv4(10, 0, 0, 1).To4(), Port: 50001}}
	writers := int(envInt("VERIF_RT_WRITERS", 16))
	rounds := int(envInt("VERIF_RT_ROUNDS", 60))
	for i := 0; i < writers*rounds; i++ {
		srv.peers = append(srv.peers, ccPeer{fmt.Sprintf("P%d", i), 1, &net.UDPAddr{IP: net.IPv4(10, byte(2+i/40000), byte((i/200)%200), byte(1+i%200)).To4(), Port: 5001}})
	}
	srv.policy = func(string) string { return "ok" }
	go srv.run()
	cl, err := turn.NewClient(&turn.ClientConfig{
		STUNServerAddr: saddr.String(), TURNServerAddr: saddr.String(), Conn: cconn, RTO: 200 * time.Millisecond,
		Username: "u1", Password: "pw-u1", Realm: realm, LoggerFactory: quietLoggerFactory{}, Net: newFakeNet(),
	})
	if err != nil {
		t.Fatal(err)
	}
	if err := cl.Listen(); err != nil {
		t.Fatal(err)
	}
	relay, err := cl.Allocate()
	if err != nil {
		t.Fatalf("allocate: %v", err)
	}
	log.add(map[string]any{"e": "Reset", "seed": seed, "profile": "rt"})
	var wg sync.WaitGroup
	var ready, ready2, round atomic.Int32
	for wi := 0; wi < writers; wi++ {
		wi := wi
		wg.Add(1)
		go func() {
			defer wg.Done()
			for r := 0; r < rounds; r++ {
				p := srv.peers[r*writers+wi]
				id := fmt.Sprintf("w%d-%d", wi, r)
				pay := []byte(id + "|" + strings.Repeat("x", 8))
				log.add(map[string]any{"e": "WriteCall", "p": p.rec(), "pay": id})
				// spin barrier: all writers of a round enter WriteTo within nanoseconds of each other
				ready.Add(1)
				for ready.Load() < int32((r+1)*writers) {
				}
				_, werr := relay.WriteTo(pay, p.addr)
				log.add(map[string]any{"e": "WriteRet", "pay": id, "ok": werr == nil})
				if r%4 == 3 {
					// every fourth round all writers send a second datagram to their peer at the same instant again
					// (ChannelData once the binding is confirmed): the encoders of parallel writers must not share state
					id2 := id + "b"
					log.add(map[string]any{"e": "WriteCall", "p": p.rec(), "pay": id2})
					ready2.Add(1)
					for ready2.Load() < int32((r/4+1)*writers) {
					}
					_, werr = relay.WriteTo([]byte(id2+"|"+strings.Repeat("y", 1+wi*3)), p.addr)
					log.add(map[string]any{"e": "WriteRet", "pay": id2, "ok": werr == nil})
				}
				round.Add(1)
			}
		}()
	}
	done := make(chan struct{})
	go func() {
		wg.Wait()
		close(done)
	}()
	select {
	case <-done:
	case <-time.After(30 * time.Second):
		log.add(map[string]any{"e": "Bad", "why": "writers did not finish within 30 s"})
	}
	time.Sleep(300 * time.Millisecond) // bindings in flight settle (the server answers at once)
	log.add(map[string]any{"e": "End"})
	closed := make(chan struct{})
	go func() {
		_ = relay.Close()
		cl.Close()
		close(closed)
	}()
	select {
	case <-closed:
	case <-time.After(3 * time.Second):
	}
	_ = cconn.Close()
	_ = sconn.Close()
}

// TestClientConnRT records VERIF_NTRACES executions into VERIF_TRACE_OUT.
func TestClientConnRT(t *testing.T) {
	out := os.Getenv("VERIF_TRACE_OUT")
	if out == "" {
		t.Skip("VERIF_TRACE_OUT not set")
	}
	seed := envInt("VERIF_SEED", 1)
	n := int(envInt("VERIF_NTRACES", 4))
	log := &traceLog{}
	for i := 0; i < n; i++ {
		runClientConnRT(t, seed*1000+int64(i), log)
	}
	log.mu.Lock()
	lines := append([]string{}, log.lines...)
	log.mu.Unlock()
	if err := os.WriteFile(out, []byte(strings.Join(lines, "\n")+"\n"), 0o644); err != nil {
		t.Fatal(err)
	}
	t.Logf("recorded %d executions, %d events", n, len(lines))
}
