package verifx

import (
	"bytes"
	"crypto/sha256"
	"encoding/binary"
	"encoding/hex"
	"errors"
	"fmt"
	"net"
	"sort"
	"strings"
	"sync"
	"time"

	"github.com/pion/logging"
	"github.com/pion/stun/v3"
	turn "github.com/pion/turn/v5"
	"github.com/pion/turn/v5/internal/allocation"
	"github.com/pion/turn/v5/internal/proto"
)

// Meta carries the constants of the TLC configuration an edge file was generated with
// (printed by the spec itself, so the harness and TLC cannot disagree about them).
type Meta struct {
	DefaultLife int               `json:"DefaultLife"`
	PermTO      int               `json:"PermTO"`
	ChanTO      int               `json:"ChanTO"`
	MaxLife     int               `json:"MaxLife"`
	Strict      bool              `json:"Strict"`
	Denied      [][]string        `json:"Denied"`
	Fam         map[string]int    `json:"Fam"`
	ListenFam   map[string]int    `json:"ListenFam"`
	Clients     []string          `json:"Clients"`
	Users       []string          `json:"Users"`
	PeerPorts   []int             `json:"PeerPorts"`
	InboundMTU  int               `json:"InboundMTU"`
	QuotaDenied []string          `json:"QuotaDenied"`
	Lens        map[string]int    `json:"Lens"`
	Extra       map[string]string `json:"Extra"`
	Sys         string            `json:"Sys"` // which real system the spec is bound to ("" = relay server)
}

// Sys is a real system under test that a specification's actions can be replayed on.
type Sys interface {
	Do(a map[string]any, wait func()) ([]Obs, error)
	Check(e Edge, obs []Obs) []Mismatch
	Close()
}

// NewSys builds the system named by the specification's META line.
func NewSys(meta Meta, seed int64, init any) (Sys, error) {
	switch meta.Sys {
	case "", "server":
		return NewWorld(meta, seed)
	case "nonce":
		return newNonceSys(meta, seed, init)
	case "ltcred":
		return newLtcredSys(meta, seed, init)
	case "relaygen":
		return newRelaygenSys(meta, seed, init)
	case "codec":
		return newCodecSys(meta, seed, init)
	case "reaper":
		return newReaperSys(meta, seed)
	case "tcp":
		return newTCPSys(meta, seed, init)
	case "clienttxn":
		return newClientTxnSys(meta, seed, init)
	case "steps":
		return newStepsSys(meta, seed, init)
	case "dispatch":
		return newDispatchSys(meta, seed, init)
	case "framer", "framer1600", "bindreply":
		return newFramerSys(meta, seed, init)
	}

	return nil, fmt.Errorf("unknown system %q", meta.Sys)
}

// Check compares what the server did in one step with the spec's edge.
func (w *World) Check(e Edge, obs []Obs) []Mismatch {
	pr := w.Project()
	name, _ := e.A["a"].(string)
	ms := CompareOut(e.O, obs, pr, w, e.A)
	ts, _ := e.TS.([]any)
	ms = append(ms, CompareState(ts, pr, actorOf(e.A), name == "Advance")...)
	if w.Meta.Extra["ledger"] == "yes" {
		ms = append(ms, w.checkLedger(e, ts)...)
	} else if len(ms) == 0 && len(ts) > 0 {
		ms = append(ms, w.checkSockets(ts)...)
	}

	return ms
}

// checkSockets: the relay sockets the generator handed out and that are still open are exactly those of
// the live allocations (a probe socket of GetRandomEvenPort, for one, must not stay open).
func (w *World) checkSockets(ts []any) []Mismatch {
	alloc, _ := ts[0].(map[string]any)
	live := 0
	for _, v := range alloc {
		if r, _ := v.(map[string]any); r["live"] == true {
			live++
		}
	}
	open := 0
	w.gen.mu.Lock()
	for _, c := range w.gen.Conns {
		select {
		case <-c.closed:
		default:
			open++
		}
	}
	w.gen.mu.Unlock()
	if open != live {
		return []Mismatch{{"resources", fmt.Sprintf("%d relay sockets are open, %d allocations are live", open, live)}}
	}

	return nil
}

func evKey(kind, key string) string {
	f := strings.Split(key, "|")
	switch kind {
	case "alloc+", "alloc-":
		return kind + " " + f[0]
	case "perm+", "perm-":
		return kind + " " + f[0] + "," + f[1]
	default: // chan: client | peer | number
		return kind + " " + f[0] + "," + f[len(f)-1]
	}
}

// checkLedger compares the lifecycle callbacks made during the step with the spec's EvDiff and
// the relay sockets the generator handed out with the live allocations of the target state.
func (w *World) checkLedger(e Edge, ts []any) []Mismatch {
	var ms []Mismatch
	w.evMu.Lock()
	evs := append([]Event{}, w.Events[w.evSeen:]...)
	w.evSeen = len(w.Events)
	w.evMu.Unlock()
	got := map[string]int{}
	for _, ev := range evs {
		got[evKey(ev.Kind, ev.Key)]++
	}
	want := map[string]int{}
	for _, x := range e.Ev {
		m, _ := x.(map[string]any)
		ks, _ := m["key"].([]any)
		parts := make([]string, len(ks))
		for i, k := range ks {
			parts[i] = fmt.Sprint(toInt2(k))
		}
		want[fmt.Sprint(m["kind"])+" "+strings.Join(parts, ",")]++
	}
	keys := map[string]bool{}
	for k := range got {
		keys[k] = true
	}
	for k := range want {
		keys[k] = true
	}
	sorted := make([]string, 0, len(keys))
	for k := range keys {
		sorted = append(sorted, k)
	}
	sort.Strings(sorted)
	for _, k := range sorted {
		if got[k] != want[k] {
			ms = append(ms, Mismatch{"events", fmt.Sprintf("lifecycle event %q: the spec has %d in this step, the server made %d callbacks", k, want[k], got[k])})
		}
	}
	// relay sockets: open ones = live allocations; nothing closed twice
	alloc, _ := ts[0].(map[string]any)
	live := 0
	for _, v := range alloc {
		if r, _ := v.(map[string]any); r["live"] == true {
			live++
		}
	}
	open := 0
	w.gen.mu.Lock()
	for k, c := range w.gen.Conns {
		select {
		case <-c.closed:
		default:
			open++
		}
		w.Net.mu.Lock()
		n := w.Net.Closed[k]
		w.Net.mu.Unlock()
		if n > 1 {
			ms = append(ms, Mismatch{"resources", fmt.Sprintf("relay socket %s was closed %d times", k, n)})
		}
	}
	w.gen.mu.Unlock()
	if open != live {
		ms = append(ms, Mismatch{"resources", fmt.Sprintf("%d relay sockets are open, %d allocations are live", open, live)})
	}

	return ms
}

// toInt2 renders a key component: numbers as integers, names as they are.
func toInt2(v any) any {
	if f, ok := v.(float64); ok {
		return int(f)
	}

	return v
}

// Finish runs at the end of a path of a specification with a ledger: the server is closed, then two
// virtual hours pass.  Everything must have been released exactly once, created and deleted events
// must pair up, and no lifecycle event may arrive late (a timer that outlived its allocation).
func (w *World) Finish(wait func()) []Mismatch {
	if w.Meta.Extra["ledger"] != "yes" {
		return nil
	}
	var ms []Mismatch
	if !w.down {
		_ = w.Srv.Close()
		w.down = true
	}
	wait()
	w.evMu.Lock()
	n0 := len(w.Events)
	bal := map[string]int{}
	for _, ev := range w.Events {
		k := evKey(ev.Kind, ev.Key)
		base := strings.Replace(strings.Replace(k, "+ ", " ", 1), "- ", " ", 1)
		if strings.Contains(k, "+ ") {
			bal[base]++
		} else {
			bal[base]--
		}
	}
	w.evMu.Unlock()
	for k, v := range bal {
		if v != 0 {
			ms = append(ms, Mismatch{"events", fmt.Sprintf("after Server.Close: created - deleted = %d for %q", v, k)})
		}
	}
	if n := w.Srv.AllocationCount(); n != 0 {
		ms = append(ms, Mismatch{"resources", fmt.Sprintf("after Server.Close AllocationCount() = %d", n)})
	}
	w.gen.mu.Lock()
	for k, c := range w.gen.Conns {
		select {
		case <-c.closed:
		default:
			ms = append(ms, Mismatch{"resources", "after Server.Close the relay socket " + k + " is still open"})
		}
	}
	w.gen.mu.Unlock()
	time.Sleep(2 * time.Hour)
	wait()
	w.evMu.Lock()
	late := append([]Event{}, w.Events[n0:]...)
	w.evMu.Unlock()
	for _, ev := range late {
		ms = append(ms, Mismatch{"events.late", fmt.Sprintf("%s %s arrived %v after the server was closed: a timer outlived its allocation", ev.Kind, ev.Key, ev.At)})
	}

	return ms
}

const realm = "verif.example"

// World is one real turn.Server on a MemNet together with scripted client and peer
// endpoints and the binding from model names to concrete values.
type World struct {
	Meta Meta
	Seed int64
	Var  Variant
	Net  *MemNet
	Srv  *turn.Server
	Tick time.Duration

	listen4, listen6 *MemConn
	listenAddr       map[string]*net.UDPAddr // model client -> server address it talks to
	clientAddr       map[string]*net.UDPAddr
	clients          map[string]*MemConn
	streams          map[string]*MemStream // model clients s1, s2: a control connection to the stream listener
	streamRest       map[string][]byte     // bytes of an incomplete frame read from that connection
	lisS             *MemListener
	deniedMu         sync.Mutex
	denied           map[string]bool // the operator's block list (Veto changes it at run time)
	revoked          string          // a user the operator's handler has stopped knowing (BadCred kind "revoked", one request)
	lisS2            *MemListener    // second stream listener (client sx)
	streamMu         sync.Mutex
	// real mode (Meta.Extra["real"] = "yes", real-time drivers only): the IPv4 datagram listener and its clients
	// c1..c3 are kernel UDP sockets on the loopback interface, so that code paths that specialise on
	// *net.UDPConn are exercised; relay sockets, peers, the IPv6 and the stream listener stay in memory
	real4       *net.UDPConn
	realClients map[string]*net.UDPConn
	peerIP      map[string]net.IP
	peerPort    map[int]int
	peers       map[string]*MemConn // key "A/1"
	peerKey     map[string]peerKeyT
	relayOwner  map[string]string // relay addr -> model client (from Allocate successes)
	relayOf     map[string]*net.UDPAddr
	nonce       string
	staleNonce  string
	noRetry     bool
	down        bool
	gate        func(point string)     // Engine G: call-outs park here
	slowDeleted func(kind, key string) // real-time ledger driver: OnPermissionDeleted / OnChannelDeleted take their time
	evSeen      int
	step        int
	gen         *memGen

	evMu   sync.Mutex
	Events []Event
	held   map[string]int // user -> allocations it holds (from OnAllocationCreated / OnAllocationDeleted)

	tokenOf   map[string]string // client -> RESERVATION-TOKEN most recently issued to it
	evenPort  map[string]int    // client -> the even relayed port that token stands next to
	curTxid   [stun.TransactionIDSize]byte
	curPay    map[string][]byte
	allocTxid map[string][stun.TransactionIDSize]byte
}

type peerKeyT struct {
	ip   string
	port int
}

// Event is one lifecycle callback.
type Event struct {
	Kind string
	Key  string
	At   time.Duration
}

// Variant selects one concrete binding of the model names (chosen by VERIF_SEED).
type Variant struct {
	Name        string
	ClientV6    bool // clients of the v4 listener written as IPv4-mapped IPv6 addresses
	MappedPeers bool // XOR-PEER-ADDRESS sometimes carries the IPv4-mapped form of an IPv4 peer
	AdjacentIPs bool // peer IPs and client IPs numerically adjacent / sharing prefixes
	Defaults    bool // leave the server's timeouts unset when the model uses the defaults
}

// Variants is the list of bindings rotated by seed.
var Variants = []Variant{
	{Name: "plain"},
	{Name: "mapped-peers", MappedPeers: true},
	{Name: "adjacent", AdjacentIPs: true},
	{Name: "mapped-clients", ClientV6: true, MappedPeers: true},
}

type memGen struct {
	w    *World
	mu   sync.Mutex
	next int
	ip4  net.IP
	ip6  net.IP
	// Conns is every relay socket ever handed out, by address.
	Conns map[string]*MemConn
	// gate: relay sockets report their close to the reader only when released (reaper walks); order of creation
	gate  bool
	Order []*MemConn
	// failNext: this many allocations fail (AllocateNoPort)
	failNext int
}

var errNoPort = errors.New("memGen: no port to give")

func (g *memGen) Validate() error { return nil }

func (g *memGen) AllocatePacketConn(c turn.AllocateListenerConfig) (net.PacketConn, net.Addr, error) {
	g.mu.Lock()
	defer g.mu.Unlock()
	if g.failNext > 0 { // AllocateNoPort: the generator has nothing to give
		g.failNext--

		return nil, nil, errNoPort
	}
	ip := g.ip4
	if c.Network == "udp6" {
		ip = g.ip6
	}
	port := c.RequestedPort
	if port == 0 {
		// automatic ports alternate odd (8k+5) and even (8k+8): an EVEN-PORT request has to probe past an
		// odd one, and the port next to an even one (8k+9, which a RESERVATION-TOKEN stands for) is never
		// handed to an unrelated allocation by accident
		for {
			g.next++
			port = 50000 + 4*g.next
			if g.next%2 == 1 {
				port++
			}
			if !g.w.Net.Bound(&net.UDPAddr{IP: ip, Port: port}) {
				break
			}
		}
	}
	a := &net.UDPAddr{IP: ip, Port: port}
	conn, err := g.w.Net.Listen(a)
	if err != nil {
		return nil, nil, err
	}
	g.Conns[key(a)] = conn
	if g.gate {
		conn.ErrGate = make(chan struct{})
		g.Order = append(g.Order, conn)
	}

	return conn, a, nil
}

func (g *memGen) AllocateListener(c turn.AllocateListenerConfig) (net.Listener, net.Addr, error) {
	g.mu.Lock()
	defer g.mu.Unlock()
	g.next++
	a := &net.TCPAddr{IP: g.ip4, Port: 50000 + g.next}
	l, err := g.w.Net.ListenTCP(a)
	if err != nil {
		return nil, nil, err
	}

	return l, a, nil
}

func (g *memGen) AllocateConn(turn.AllocateConnConfig) (net.Conn, error) {
	return nil, errors.New("memGen: no stream relays in this world")
}

func mapped(ip net.IP) net.IP {
	if v4 := ip.To4(); v4 != nil {
		return v4.To16()
	}

	return ip
}

// NewWorld builds the world for one path.  Must be called inside a synctest bubble.
func NewWorld(meta Meta, seed int64) (*World, error) {
	w := &World{
		Meta: meta, Seed: seed, Var: Variants[int(uint64(seed)%uint64(len(Variants)))],
		Net: NewMemNet(), Tick: time.Second,
		listenAddr: map[string]*net.UDPAddr{}, clientAddr: map[string]*net.UDPAddr{},
		clients: map[string]*MemConn{}, streams: map[string]*MemStream{}, streamRest: map[string][]byte{}, peerIP: map[string]net.IP{}, peerPort: map[int]int{},
		peers: map[string]*MemConn{}, peerKey: map[string]peerKeyT{}, relayOwner: map[string]string{}, relayOf: map[string]*net.UDPAddr{},
		curPay: map[string][]byte{}, allocTxid: map[string][stun.TransactionIDSize]byte{},
		tokenOf: map[string]string{}, evenPort: map[string]int{}, held: map[string]int{},
	}
	if ms := toInt(meta.Extra["tick_ms"]); ms > 0 {
		w.Tick = time.Duration(ms) * time.Millisecond // (real-time drivers with short timeouts)
	}
	srv4 := &net.UDPAddr{IP: net.IPv4(10, 0, 0, 1).To4(), Port: 3478}
	srv6 := &net.UDPAddr{IP: net.ParseIP("fd00::1"), Port: 3478}
	realMode := meta.Extra["real"] == "yes"
	if realMode {
		rc, err := net.ListenUDP("udp4", &net.UDPAddr{IP: net.IPv4(127, 0, 0, 1), Port: 0})
		if err != nil {
			return nil, err
		}
		w.real4 = rc
		ra, _ := rc.LocalAddr().(*net.UDPAddr)
		srv4 = &net.UDPAddr{IP: ra.IP.To4(), Port: ra.Port}
		w.listen4 = &MemConn{addr: srv4}
		w.realClients = map[string]*net.UDPConn{}
	} else {
		w.listen4 = w.Net.MustListen(srv4)
	}
	w.listen6 = w.Net.MustListen(srv6)
	w.gen = &memGen{w: w, ip4: net.IPv4(10, 0, 0, 1).To4(), ip6: net.ParseIP("fd00::1"), Conns: map[string]*MemConn{}}

	// clients: c1, c2 share an IP (different ports); c3 another IP; c6 is an IPv6 client
	names := append([]string{}, meta.Clients...)
	sort.Strings(names)
	for _, c := range names {
		var a *net.UDPAddr
		switch {
		case strings.HasPrefix(c, "s"):
			// a stream client: s1 has the IP and port of c1 (the 5-tuples differ in the transport only)
			a = &net.UDPAddr{IP: net.IPv4(10, 0, 0, 11).To4(), Port: 40001}
			if c1 := w.clientAddr["c1"]; c1 != nil {
				a = &net.UDPAddr{IP: c1.IP, Port: c1.Port}
			}
			if c != "s1" && c != "sx" && c != "sy" {
				a = &net.UDPAddr{IP: net.IPv4(10, 0, 0, 12).To4(), Port: 40002}
			}
			w.listenAddr[c] = srv4
			if c == "sx" { // the IP and port of s1 once more, connected to the server's second stream listener
				w.listenAddr[c] = &net.UDPAddr{IP: srv4.IP, Port: srv4.Port + 1}
			}
			if c == "sy" { // the IP and port of s1 once more, connected to another local IP of the SAME (wildcard) listener
				w.listenAddr[c] = &net.UDPAddr{IP: net.IPv4(10, 0, 0, 2).To4(), Port: srv4.Port}
			}
			w.clientAddr[c] = a

			continue
		case meta.ListenFam[c] == 6:
			a = &net.UDPAddr{IP: net.ParseIP("fd00:2::11"), Port: 40006}
			w.listenAddr[c] = srv6
		case c == "c1":
			a = &net.UDPAddr{IP: net.IPv4(10, 0, 0, 11).To4(), Port: 40001}
		case c == "c2":
			a = &net.UDPAddr{IP: net.IPv4(10, 0, 0, 11).To4(), Port: 40002}
		default:
			a = &net.UDPAddr{IP: net.IPv4(10, 0, 0, 12).To4(), Port: 40001}
		}
		if w.listenAddr[c] == nil {
			w.listenAddr[c] = srv4
			if realMode {
				ip := net.IPv4(127, 0, 0, 1)
				if c != "c1" && c != "c2" {
					ip = net.IPv4(127, 0, 0, 2) // another source IP on the loopback interface
				}
				rc, err := net.ListenUDP("udp4", &net.UDPAddr{IP: ip, Port: 0})
				if err != nil {
					return nil, err
				}
				la, _ := rc.LocalAddr().(*net.UDPAddr)
				w.realClients[c] = rc
				w.clientAddr[c] = &net.UDPAddr{IP: la.IP.To4(), Port: la.Port}

				continue
			}
			if w.Var.ClientV6 {
				a.IP = mapped(a.IP)
			}
		}
		w.clientAddr[c] = a
		w.clients[c] = w.Net.MustListen(a)
	}
	// peers
	ipnames := make([]string, 0, len(meta.Fam))
	for i := range meta.Fam {
		ipnames = append(ipnames, i)
	}
	sort.Strings(ipnames)
	for k, i := range ipnames {
		if meta.Fam[i] == 6 {
			w.peerIP[i] = net.ParseIP(fmt.Sprintf("fd00:1::%d", k+1))
		} else if w.Var.AdjacentIPs {
			w.peerIP[i] = net.IPv4(10, 0, 0, byte(13+k)).To4() // next to the clients
		} else {
			w.peerIP[i] = net.IPv4(10, 1, byte(k), byte(1+k)).To4()
		}
	}
	for _, pp := range meta.PeerPorts {
		w.peerPort[pp] = 5000 + pp
		if w.Var.AdjacentIPs {
			w.peerPort[pp] = 40000 + pp // same ports as the clients
		}
	}
	for _, i := range ipnames {
		for _, pp := range meta.PeerPorts {
			w.peers[fmt.Sprintf("%s/%d", i, pp)] = w.Net.MustListen(&net.UDPAddr{IP: w.peerIP[i], Port: w.peerPort[pp]})
			w.peerKey[fmt.Sprintf("%s/%d", i, pp)] = peerKeyT{i, pp}
		}
	}

	w.denied = map[string]bool{}
	for _, d := range meta.Denied {
		w.denied[d[0]+"|"+d[1]] = true
	}
	permHandler := func(clientAddr net.Addr, peerIP net.IP) bool {
		if w.gate != nil {
			w.gate("callout.grant")
		}
		c := w.clientName(clientAddr)
		i := w.ipName(peerIP)
		w.deniedMu.Lock()
		defer w.deniedMu.Unlock()

		return !w.denied[c+"|"+i]
	}
	users := map[string]bool{}
	for _, u := range meta.Users {
		users[u] = true
	}
	cfg := turn.ServerConfig{
		Realm: realm,
		AuthHandler: func(ra *turn.RequestAttributes) (string, []byte, bool) {
			if w.gate != nil {
				w.gate("callout.auth")
			}
			w.deniedMu.Lock()
			gone := w.revoked == ra.Username
			w.deniedMu.Unlock()
			if !users[ra.Username] || gone {
				return "", nil, false
			}

			return userIDOf(ra.Username), turn.GenerateAuthKey(ra.Username, ra.Realm, "pw-"+ra.Username), true
		},
		PacketConnConfigs: []turn.PacketConnConfig{
			{PacketConn: w.listen4, RelayAddressGenerator: w.gen, PermissionHandler: permHandler},
			{PacketConn: w.listen6, RelayAddressGenerator: w.gen, PermissionHandler: permHandler},
		},
		LoggerFactory:       quietLoggerFactory{},
		StrictAddressFamily: meta.Strict,
		EventHandler:        w.eventHandler(),
		InboundMTU:          meta.InboundMTU,
	}
	quotaOne := false
	for _, u := range meta.Users {
		quotaOne = quotaOne || strings.HasPrefix(u, "q")
	}
	if len(meta.QuotaDenied) > 0 || quotaOne {
		over := map[string]bool{}
		for _, u := range meta.QuotaDenied {
			over[u] = true
		}
		// users q1, q2: one allocation at a time, counted from the lifecycle events as an operator would
		cfg.QuotaHandler = func(username, _ string, _ net.Addr) bool {
			if over[username] {
				return false
			}
			if strings.HasPrefix(username, "q") {
				w.evMu.Lock()
				n := w.held[username]
				w.evMu.Unlock()

				return n == 0
			}

			return true
		}
	}
	useDefaults := w.Var.Defaults && meta.DefaultLife == 600 && meta.PermTO == 300 && meta.ChanTO == 600
	if !useDefaults {
		cfg.AllocationLifetime = time.Duration(meta.DefaultLife) * w.Tick
		cfg.PermissionTimeout = time.Duration(meta.PermTO) * w.Tick
		cfg.ChannelBindTimeout = time.Duration(meta.ChanTO) * w.Tick
	}
	if realMode {
		cfg.PacketConnConfigs[0].PacketConn = w.real4
	}
	for _, c := range names {
		if strings.HasPrefix(c, "s") && w.lisS == nil {
			lis, err := w.Net.ListenTCP(&net.TCPAddr{IP: srv4.IP, Port: srv4.Port})
			if err != nil {
				return nil, err
			}
			w.lisS = lis
			cfg.ListenerConfigs = []turn.ListenerConfig{{Listener: lis, RelayAddressGenerator: w.gen, PermissionHandler: permHandler}}
		}
	}
	if la := w.listenAddr["sy"]; la != nil && w.lisS != nil {
		w.Net.AliasTCP(w.lisS, &net.TCPAddr{IP: la.IP, Port: la.Port})
	}
	if la := w.listenAddr["sx"]; la != nil && w.lisS != nil {
		lis2, err := w.Net.ListenTCP(&net.TCPAddr{IP: la.IP, Port: la.Port})
		if err != nil {
			return nil, err
		}
		w.lisS2 = lis2
		cfg.ListenerConfigs = append(cfg.ListenerConfigs, turn.ListenerConfig{Listener: lis2, RelayAddressGenerator: w.gen, PermissionHandler: permHandler})
	}
	if meta.Extra["auth"] == "no" {
		cfg.AuthHandler = nil
	}
	w.noRetry = meta.Extra["auth"] != ""
	srv, err := turn.NewServer(cfg)
	if err != nil {
		return nil, err
	}
	w.Srv = srv
	for _, c := range names {
		if strings.HasPrefix(c, "s") {
			if err := w.dialStream(c); err != nil {
				return nil, err
			}
		}
	}

	return w, nil
}

// userIDOf: what the operator's handler calls the user.  Users "anon..." are identified by the empty string
// (a shared-credential deployment; also what the library's REST handler returns for "<timestamp>:").
func userIDOf(user string) string {
	if strings.HasPrefix(user, "anon") {
		return ""
	}

	return user
}

func (w *World) userOfID(id string) string {
	if id == "" {
		for _, u := range w.Meta.Users {
			if strings.HasPrefix(u, "anon") {
				return u
			}
		}
	}

	return id
}

func (w *World) isStream(c string) bool { return strings.HasPrefix(c, "s") }

func (w *World) dialStream(c string) error {
	a := w.clientAddr[c]
	st, err := w.Net.DialTCP(&net.TCPAddr{IP: a.IP, Port: a.Port}, &net.TCPAddr{IP: w.listenAddr[c].IP, Port: w.listenAddr[c].Port})
	if err != nil {
		return err
	}
	w.streamMu.Lock()
	w.streams[c] = st
	w.streamRest[c] = nil
	w.streamMu.Unlock()

	return nil
}

// drainClient returns what client c received since the last call: datagrams, or the complete frames of
// its control connection (a STUN message is 20 bytes + its length, ChannelData 4 + its length padded to 4).
func (w *World) drainClient(c string) []Pkt {
	if rc := w.realClients[c]; rc != nil {
		var out []Pkt
		buf := make([]byte, 70000)
		for {
			_ = rc.SetReadDeadline(time.Now().Add(300 * time.Microsecond))
			n, from, err := rc.ReadFromUDP(buf)
			if err != nil {
				return out
			}
			out = append(out, Pkt{Data: append([]byte{}, buf[:n]...), From: &net.UDPAddr{IP: from.IP.To4(), Port: from.Port}})
		}
	}
	if !w.isStream(c) {
		return w.clients[c].Drain()
	}
	w.streamMu.Lock()
	defer w.streamMu.Unlock()
	st := w.streams[c]
	if st == nil {
		return nil
	}
	buf := append(w.streamRest[c], st.Buffered()...)
	var out []Pkt
	for len(buf) >= 4 {
		n := 20 + int(binary.BigEndian.Uint16(buf[2:4]))
		if buf[0]&0xc0 != 0 {
			n = 4 + (int(binary.BigEndian.Uint16(buf[2:4]))+3)/4*4
		}
		if len(buf) < n {
			break
		}
		out = append(out, Pkt{Data: append([]byte{}, buf[:n]...), From: w.listenAddr[c]})
		buf = buf[n:]
	}
	w.streamRest[c] = append([]byte{}, buf...)

	return out
}

// Close tears the world down so that the bubble can end.
func (w *World) Close() {
	_ = w.Srv.Close()
	for _, c := range w.clients {
		_ = c.Close()
	}
	for _, st := range w.streams {
		_ = st.Close()
	}
	for _, rc := range w.realClients {
		_ = rc.Close()
	}
	if w.real4 != nil {
		_ = w.real4.Close()
	}
	if w.lisS != nil {
		_ = w.lisS.Close()
	}
	if w.lisS2 != nil {
		_ = w.lisS2.Close()
	}
	for _, p := range w.peers {
		_ = p.Close()
	}
	// relay sockets the server leaked (a finding by then) must not keep their readers alive beyond the bubble
	w.gen.mu.Lock()
	for _, c := range w.gen.Conns {
		if c.ErrGate != nil {
			select {
			case <-c.ErrGate:
			default:
				close(c.ErrGate)
			}
		}
		_ = c.Close()
	}
	w.gen.mu.Unlock()
}

// clientOf names the client of a 5-tuple: s1 and sx share their address and differ in the listener they reached.
func (w *World) clientOf(src, dst net.Addr) string {
	c := w.clientName(src)
	if d, ok := dst.(*net.TCPAddr); ok && (c == "s1" || c == "sx" || c == "sy") {
		for _, x := range []string{"sx", "sy"} {
			if la := w.listenAddr[x]; la != nil && la.Port == d.Port && la.IP.Equal(d.IP) {
				return x
			}
		}

		return "s1"
	}

	return c
}

func (w *World) clientName(a net.Addr) string {
	var ip net.IP
	var port int
	stream := false
	switch t := a.(type) {
	case *net.UDPAddr:
		ip, port = t.IP, t.Port
	case *net.TCPAddr:
		ip, port, stream = t.IP, t.Port, true
	default:
		return "?" + a.String()
	}
	for c, ca := range w.clientAddr {
		if ca.IP.Equal(ip) && ca.Port == port && w.isStream(c) == stream && c != "sx" && c != "sy" {
			return c
		}
	}
	for _, x := range []string{"sx", "sy"} {
		if ca := w.clientAddr[x]; ca != nil && stream && ca.IP.Equal(ip) && ca.Port == port {
			return x
		}
	}

	return "?" + a.String()
}

func (w *World) ipName(ip net.IP) string {
	for i, pip := range w.peerIP {
		if pip.Equal(ip) {
			return i
		}
	}

	return "?" + ip.String()
}

func (w *World) peerName(a net.Addr) []any {
	var ip net.IP
	var port int
	switch t := a.(type) {
	case *net.UDPAddr:
		ip, port = t.IP, t.Port
	case *net.TCPAddr:
		ip, port = t.IP, t.Port
	default:
		return []any{"?" + a.String(), 0}
	}
	for pp, cp := range w.peerPort {
		if cp == port {
			return []any{w.ipName(ip), pp}
		}
	}

	return []any{w.ipName(ip), -port}
}

func (w *World) now() time.Duration {
	return time.Since(time.Date(2000, 1, 1, 0, 0, 0, 0, time.UTC))
}

func (w *World) ev(kind, key string) {
	w.evMu.Lock()
	w.Events = append(w.Events, Event{kind, key, w.now()})
	w.evMu.Unlock()
}

func (w *World) eventHandler() turn.EventHandler {
	return turn.EventHandler{
		OnAllocationCreated: func(src, dst net.Addr, _, user, _ string, relay net.Addr, _ int) {
			if w.gate != nil {
				w.gate("callout.alloccreated")
			}
			w.evMu.Lock()
			w.held[user]++
			w.evMu.Unlock()
			w.ev("alloc+", w.clientOf(src, dst)+"|"+user+"|"+relay.String())
		},
		OnAllocationDeleted: func(src, dst net.Addr, _, user, _ string) {
			if w.gate != nil {
				w.gate("callout.allocdeleted")
			}
			w.evMu.Lock()
			w.held[user]--
			w.evMu.Unlock()
			w.ev("alloc-", w.clientOf(src, dst)+"|"+user)
		},
		OnPermissionCreated: func(src, dst net.Addr, _, _, _ string, _ net.Addr, peer net.IP) {
			if w.gate != nil {
				w.gate("callout.permcreated")
			}
			w.ev("perm+", w.clientOf(src, dst)+"|"+w.ipName(peer))
		},
		OnPermissionDeleted: func(src, dst net.Addr, _, _, _ string, _ net.Addr, peer net.IP) {
			if w.slowDeleted != nil {
				w.slowDeleted("perm-", w.ipName(peer)) // (real-time driver only: the operator's callback is slow)
			}
			w.ev("perm-", w.clientOf(src, dst)+"|"+w.ipName(peer))
		},
		OnChannelCreated: func(src, dst net.Addr, _, _, _ string, _, peer net.Addr, n uint16) {
			if w.gate != nil {
				w.gate("callout.chancreated")
			}
			w.ev("chan+", fmt.Sprintf("%s|%v|%d", w.clientOf(src, dst), w.peerName(peer), n))
		},
		OnChannelDeleted: func(src, dst net.Addr, _, _, _ string, _, peer net.Addr, n uint16) {
			if w.slowDeleted != nil {
				w.slowDeleted("chan-", fmt.Sprint(n))
			}
			w.ev("chan-", fmt.Sprintf("%s|%v|%d", w.clientOf(src, dst), w.peerName(peer), n))
		},
	}
}

type quietLoggerFactory struct{}

func (quietLoggerFactory) NewLogger(string) logging.LeveledLogger { return quietLogger{} }

type quietLogger struct{}

func (quietLogger) Trace(string)          {}
func (quietLogger) Tracef(string, ...any) {}
func (quietLogger) Debug(string)          {}
func (quietLogger) Debugf(string, ...any) {}
func (quietLogger) Info(string)           {}
func (quietLogger) Infof(string, ...any)  {}
func (quietLogger) Warn(string)           {}
func (quietLogger) Warnf(string, ...any)  {}
func (quietLogger) Error(string)          {}
func (quietLogger) Errorf(string, ...any) {}

// ---------------------------------------------------------------------------
// concrete values

func (w *World) peerAddr(p []any) *net.UDPAddr {
	ip := w.peerIP[p[0].(string)]
	port := w.peerPort[toInt(p[1])]

	return &net.UDPAddr{IP: ip, Port: port}
}

// wirePeer is the address written into XOR-PEER-ADDRESS: the same peer, sometimes in its
// IPv4-mapped IPv6 form, i.e. an attribute of family IPv6 holding ::ffff:a.b.c.d (the spec does
// not distinguish the two encodings of one address; pion/stun's own encoder would normalise
// the mapped form away, so it is written by hand).
func (w *World) wirePeer(p []any) stun.Setter {
	a := w.peerAddr(p)
	if w.Var.MappedPeers && a.IP.To4() != nil && w.coin("mp") {
		return mappedPeerAttr{ip: mapped(a.IP), port: a.Port}
	}

	return proto.PeerAddress{IP: a.IP, Port: a.Port}
}

type mappedPeerAttr struct {
	ip   net.IP
	port int
}

func (m mappedPeerAttr) AddTo(msg *stun.Message) error {
	const cookie = 0x2112A442
	v := make([]byte, 4+16)
	binary.BigEndian.PutUint16(v[0:2], 0x02)
	binary.BigEndian.PutUint16(v[2:4], uint16(m.port)^uint16(cookie>>16)) //nolint:gosec
	x := make([]byte, 16)
	binary.BigEndian.PutUint32(x[0:4], cookie)
	copy(x[4:], msg.TransactionID[:])
	for i := 0; i < 16; i++ {
		v[4+i] = m.ip.To16()[i] ^ x[i]
	}
	msg.Add(stun.AttrXORPeerAddress, v)

	return nil
}

func (w *World) coin(salt string) bool {
	h := sha256.Sum256([]byte(fmt.Sprintf("%d/%d/%s", w.Seed, w.step, salt)))

	return h[0]&1 == 1
}

func (w *World) payload(id string, n int) []byte {
	if n < 0 {
		h := sha256.Sum256([]byte(fmt.Sprintf("len/%d/%d/%s", w.Seed, w.step, id)))
		n = 1 + int(h[0])%48
		if id == "cookie" {
			n += 16
		}
	}
	switch id {
	case "cookie": // begins with the STUN magic cookie: bytes 4..7 of a ChannelData message carrying it are a STUN message's
		b := w.payloadRand(id, n)
		copy(b, []byte{0x21, 0x12, 0xa4, 0x42})

		return b
	case "zeros":
		return make([]byte, n)
	case "stunlike": // a Binding request header (and, when long enough, a Send indication header) as payload
		b := w.payloadRand(id, n)
		copy(b, []byte{0x00, 0x01, 0x00, 0x00, 0x21, 0x12, 0xa4, 0x42})

		return b
	case "chanlike": // a ChannelData header for 0x4000 with a plausible length
		b := w.payloadRand(id, n)
		hdr := []byte{0x40, 0x00, 0x00, 0x00}
		if n >= 4 {
			binary.BigEndian.PutUint16(hdr[2:], uint16((n-4)&0xffff)) //nolint:gosec
		}
		copy(b, hdr)

		return b
	}

	return w.payloadRand(id, n)
}

func (w *World) payloadRand(id string, n int) []byte {
	out := make([]byte, 0, n+32)
	ctr := 0
	for len(out) < n {
		h := sha256.Sum256([]byte(fmt.Sprintf("pay/%d/%d/%s/%d", w.Seed, w.step, id, ctr)))
		out = append(out, h[:]...)
		ctr++
	}

	return out[:n]
}

func toInt(v any) int {
	switch t := v.(type) {
	case float64:
		return int(t)
	case int:
		return t
	case string:
		var n int
		_, _ = fmt.Sscanf(t, "%d", &n)

		return n
	}

	return 0
}

func (w *World) txid(name string) (id [stun.TransactionIDSize]byte) {
	h := sha256.Sum256([]byte(fmt.Sprintf("tx/%d/%s", w.Seed, name)))
	copy(id[:], h[:])

	return id
}

func (w *World) freshTxid() (id [stun.TransactionIDSize]byte) {
	h := sha256.Sum256([]byte(fmt.Sprintf("ftx/%d/%d", w.Seed, w.step)))
	copy(id[:], h[:])

	return id
}

// ---------------------------------------------------------------------------
// requests

type txidSetter [stun.TransactionIDSize]byte

func (t txidSetter) AddTo(m *stun.Message) error {
	m.TransactionID = t
	m.WriteTransactionID()

	return nil
}

func (w *World) authed(u string, id [stun.TransactionIDSize]byte, method stun.Method, attrs ...stun.Setter) []byte {
	s := []stun.Setter{txidSetter(id), stun.NewType(method, stun.ClassRequest)}
	s = append(s, attrs...)
	s = append(s, stun.NewUsername(u), stun.NewRealm(realm), stun.NewNonce(w.nonce),
		stun.NewLongTermIntegrity(u, realm, "pw-"+u))
	m, err := stun.Build(s...)
	if err != nil {
		panic(err)
	}

	return m.Raw
}

func (w *World) sendFromClient(c string, raw []byte) {
	if w.isStream(c) {
		if st := w.streams[c]; st != nil {
			if len(raw) >= 4 && raw[0]&0xc0 != 0 && len(raw)%4 != 0 { // ChannelData over a stream is padded to 4
				raw = append(append([]byte{}, raw...), make([]byte, 4-len(raw)%4)...)
			}
			_, _ = st.Write(raw)
		}

		return
	}
	if rc := w.realClients[c]; rc != nil {
		_, _ = rc.WriteToUDP(raw, w.listenAddr[c])

		return
	}
	_, _ = w.clients[c].WriteTo(raw, w.listenAddr[c])
}

// ensureNonce obtains a nonce from the server with an unauthenticated request sent from a
// throw-away endpoint, so that no model client is involved.
func (w *World) ensureNonce(wait func()) error {
	if w.nonce != "" {
		return nil
	}
	if w.noRetry && w.staleNonce == "" {
		// auth family: first a nonce that will be 61+ minutes old when the walk starts; with an
		// odd seed the nonce used by authentic requests is 51 minutes old (still valid)
		if err := w.mintNonce(wait); err != nil {
			return err
		}
		w.staleNonce, w.nonce = w.nonce, ""
		time.Sleep(600 * time.Second)
		var old string
		if w.Seed%2 == 1 {
			if err := w.mintNonce(wait); err != nil {
				return err
			}
			old, w.nonce = w.nonce, ""
		}
		time.Sleep(3065 * time.Second)
		if old != "" {
			w.nonce = old

			return nil
		}
	}

	return w.mintNonce(wait)
}

func (w *World) mintNonce(wait func()) error {
	if w.real4 != nil { // real mode: the throw-away endpoint is a kernel socket too
		rc, err := net.ListenUDP("udp4", &net.UDPAddr{IP: net.IPv4(127, 0, 0, 1), Port: 0})
		if err != nil {
			return err
		}
		defer rc.Close() //nolint:errcheck
		m := stun.MustBuild(stun.TransactionID, stun.NewType(stun.MethodAllocate, stun.ClassRequest), proto.RequestedTransport{Protocol: proto.ProtoUDP})
		if _, err := rc.WriteToUDP(m.Raw, w.listen4.addr); err != nil {
			return err
		}
		buf := make([]byte, 2000)
		_ = rc.SetReadDeadline(time.Now().Add(2 * time.Second))
		n, _, err := rc.ReadFromUDP(buf)
		if err != nil {
			return err
		}
		r := &stun.Message{Raw: buf[:n]}
		if err := r.Decode(); err != nil {
			return err
		}
		var nn stun.Nonce
		if err := nn.GetFrom(r); err != nil {
			return err
		}
		w.nonce = nn.String()

		return nil
	}
	probe := w.Net.MustListen(&net.UDPAddr{IP: net.IPv4(10, 9, 9, 9).To4(), Port: 9})
	defer probe.Close() //nolint:errcheck
	m := stun.MustBuild(stun.TransactionID, stun.NewType(stun.MethodAllocate, stun.ClassRequest),
		proto.RequestedTransport{Protocol: proto.ProtoUDP})
	_, _ = probe.WriteTo(m.Raw, w.listen4.addr)
	wait()
	pk := probe.Drain()
	if len(pk) != 1 {
		return fmt.Errorf("nonce probe: %d answers", len(pk))
	}
	r := &stun.Message{Raw: pk[0].Data}
	if err := r.Decode(); err != nil {
		return err
	}
	var n stun.Nonce
	if err := n.GetFrom(r); err != nil {
		return err
	}
	w.nonce = n.String()

	return nil
}

// Obs is one observed output, in the vocabulary of the spec's `out` records.
type Obs map[string]any

// Do performs one spec action on the real server and returns what every endpoint observed.
// wait must quiesce the bubble (synctest.Wait).
func (w *World) Do(a map[string]any, wait func()) ([]Obs, error) {
	w.step++
	time.Sleep(time.Microsecond) // strictly after anything due at the same model instant
	wait()
	if !w.down {
		if err := w.ensureNonce(wait); err != nil {
			return nil, err
		}
	}
	obs, retry, err := w.do1(a, wait)
	if err != nil {
		return nil, err
	}
	if retry {
		// the request was answered 438 with a fresh nonce (virtual hours have passed): the
		// harness behaves like any client and repeats the request once with the new nonce
		obs, retry, err = w.do1(a, wait)
		if err == nil && retry {
			err = errors.New("stale nonce answered twice in a row")
		}
	}

	return obs, err
}

func (w *World) do1(a map[string]any, wait func()) (obs []Obs, retry bool, err error) {
	name, _ := a["a"].(string)
	c, _ := a["c"].(string)
	u, _ := a["u"].(string)
	w.curTxid = w.freshTxid()
	w.curPay = map[string][]byte{}
	switch name {
	case "Advance":
		time.Sleep(time.Duration(toInt(a["d"])) * w.Tick)
	case "Veto": // the operator changes its verdict about (c, i)
		on, _ := a["on"].(bool)
		w.deniedMu.Lock()
		w.denied[c+"|"+fmt.Sprint(a["i"])] = on
		w.deniedMu.Unlock()
	case "Binding":
		m := stun.MustBuild(txidSetter(w.curTxid), stun.BindingRequest)
		w.sendFromClient(c, m.Raw)
	case "Allocate":
		w.curTxid = w.txid(a["tx"].(string)) // (the same id whichever client uses the name: 5-tuples share transaction ids)
		attrs := []stun.Setter{proto.RequestedTransport{Protocol: proto.ProtoUDP}}
		if lr := toInt(a["lr"]); lr >= 0 {
			attrs = append(attrs, w.lifeAttr(lr))
		}
		attrs = append(attrs, famAttr(toInt(a["rf"]))...)
		switch tk, _ := a["tk"].(string); tk {
		case "", "none":
		case "even":
			attrs = append(attrs, proto.EvenPort{ReservePort: true})
		case "bogus":
			attrs = append(attrs, proto.ReservationToken(w.payload("bogus-token", 8)))
		default: // the token most recently issued to client tk (a made-up one if none ever was)
			tok := w.tokenOf[tk]
			if tok == "" {
				tok = string(w.payload("no-token", 8))
			}
			attrs = append(attrs, proto.ReservationToken([]byte(tok)))
		}
		w.sendFromClient(c, w.authed(u, w.curTxid, stun.MethodAllocate, attrs...))
	case "AllocateNoPort":
		w.curTxid = w.txid(a["tx"].(string)) // (the same id whichever client uses the name: 5-tuples share transaction ids)
		w.gen.mu.Lock()
		w.gen.failNext = 1
		w.gen.mu.Unlock()
		w.sendFromClient(c, w.authed(u, w.curTxid, stun.MethodAllocate, proto.RequestedTransport{Protocol: proto.ProtoUDP}))
		wait()
		w.gen.mu.Lock()
		w.gen.failNext = 0
		w.gen.mu.Unlock()
	case "AllocateLostWrite":
		// the server's next write toward this client fails (once): the success response is never sent
		// (with a fresh nonce: a 438 could not be seen and repeated here)
		if err := w.mintNonce(wait); err != nil {
			return nil, false, err
		}
		w.curTxid = w.txid(a["tx"].(string)) // (the same id whichever client uses the name: 5-tuples share transaction ids)
		lis := w.listen4
		if w.listenAddr[c] == w.listen6.addr {
			lis = w.listen6
		}
		ca := w.clientAddr[c]
		armed := true
		lis.WriteErr = func(_ []byte, to net.Addr) error {
			if ua, ok := to.(*net.UDPAddr); ok && armed && ua.IP.Equal(ca.IP) && ua.Port == ca.Port {
				armed = false

				return errInjectedWrite
			}

			return nil
		}
		w.sendFromClient(c, w.authed(u, w.curTxid, stun.MethodAllocate, proto.RequestedTransport{Protocol: proto.ProtoUDP}))
		wait()
		lis.WriteErr = nil
		// the client never saw the relayed address; the harness reads it from the table to attribute later traffic
		if st := w.Project().C[c]; st.Live {
			if ra, err := net.ResolveUDPAddr("udp", st.Relay); err == nil {
				w.relayOwner[key(ra)] = c
				w.relayOf[c] = ra
			}
		}
	case "Refresh":
		attrs := []stun.Setter{}
		if lr := toInt(a["lr"]); lr >= 0 {
			attrs = append(attrs, w.lifeAttr(lr))
		}
		attrs = append(attrs, famAttr(toInt(a["rf"]))...)
		w.sendFromClient(c, w.authed(u, w.curTxid, stun.MethodRefresh, attrs...))
	case "CreatePermission":
		attrs := []stun.Setter{}
		for _, i := range a["ips"].([]any) {
			attrs = append(attrs, w.wirePeer([]any{i, w.Meta.PeerPorts[0]}))
		}
		w.sendFromClient(c, w.authed(u, w.curTxid, stun.MethodCreatePermission, attrs...))
	case "ChannelBind":
		attrs := []stun.Setter{proto.ChannelNumber(toInt(a["n"])), w.wirePeer(a["p"].([]any))} //nolint:gosec
		w.sendFromClient(c, w.authed(u, w.curTxid, stun.MethodChannelBind, attrs...))
	case "SendInd":
		pay := w.payload(a["pay"].(string), w.lenOf(a))
		w.curPay[a["pay"].(string)] = pay
		pa := w.wirePeer(a["p"].([]any))
		ua := w.peerAddr(a["p"].([]any))
		if w.lenOf(a) >= 0 { // the spec models the wire size: plain encoding of the peer address
			pa = proto.PeerAddress{IP: ua.IP, Port: ua.Port}
		}
		m := stun.MustBuild(stun.TransactionID, stun.NewType(stun.MethodSend, stun.ClassIndication), pa, proto.Data(pay))
		if n := w.lenOf(a); n >= 0 {
			want := 20 + 12 + 4 + (n+3)/4*4
			if ua.IP.To4() == nil {
				want += 12
			}
			if len(m.Raw) != want {
				return nil, false, fmt.Errorf("harness: Send indication is %d bytes on the wire, the spec computes %d", len(m.Raw), want)
			}
		}
		w.sendFromClient(c, m.Raw)
	case "ChanData":
		pay := w.payload(a["pay"].(string), w.lenOf(a))
		w.curPay[a["pay"].(string)] = pay
		cd := proto.ChannelData{Number: proto.ChannelNumber(toInt(a["n"])), Data: pay} //nolint:gosec
		cd.Encode()
		w.sendFromClient(c, cd.Raw)
	case "RelayError":
		if ra := w.relayOf[c]; ra != nil {
			if conn := w.gen.Conns[key(ra)]; conn != nil {
				close(conn.ReadErr) // the relay socket's next read fails
			}
		}
	case "ConnClose":
		// the control connection of a stream client ends; a new one from the same address serves later steps
		if st := w.streams[c]; st != nil {
			_ = st.Close()
		}
		wait()
		if err := w.dialStream(c); err != nil {
			return nil, false, err
		}
	case "ServerClose":
		_ = w.Srv.Close()
		w.down = true
	case "BadCred":
		if tx, _ := a["tx"].(string); tx != "" {
			// the transaction id of the Allocate that created the allocation, once more (BadCredReplay)
			w.curTxid = w.txid(tx)
		}
		raw, err := w.badCred(c, a["m"].(string), a["k"].(string))
		if err != nil {
			return nil, false, err
		}
		w.sendFromClient(c, raw)
		if a["k"] == "revoked" {
			wait()
			w.deniedMu.Lock()
			w.revoked = ""
			w.deniedMu.Unlock()
		}
	case "PeerData":
		pay := w.payload(a["pay"].(string), w.lenOf(a))
		w.curPay[a["pay"].(string)] = pay
		p := a["p"].([]any)
		if ra := w.relayOf[c]; ra != nil {
			_, _ = w.peers[fmt.Sprintf("%s/%d", p[0], toInt(p[1]))].WriteTo(pay, ra)
		}
	default:
		return nil, false, fmt.Errorf("unknown action %q", name)
	}
	wait()
	obs, retry = w.collect(name, c)

	return obs, retry, nil
}

func (w *World) lenOf(a map[string]any) int {
	if l, ok := a["len"]; ok {
		return toInt(l)
	}

	return -1
}

// lifeAttr: the model's largest LIFETIME class (2^31-1, TLC's integer limit) stands for 2^32-1.
func (w *World) lifeAttr(lr int) proto.Lifetime {
	if lr >= 2147483647 {
		return proto.Lifetime{Duration: time.Duration(4294967295) * time.Second}
	}

	return proto.Lifetime{Duration: time.Duration(lr) * w.Tick}
}

func famAttr(rf int) []stun.Setter {
	switch rf {
	case 0:
		return nil
	case 4:
		return []stun.Setter{proto.RequestedFamilyIPv4}
	case 6:
		return []stun.Setter{proto.RequestedFamilyIPv6}
	default:
		return []stun.Setter{proto.RequestedAddressFamily(byte(rf))} //nolint:gosec
	}
}

func (w *World) payID(b []byte) any {
	for id, want := range w.curPay {
		if bytes.Equal(want, b) {
			return id
		}
	}
	h := sha256.Sum256(b)

	return fmt.Sprintf("!len=%d sha=%s", len(b), hex.EncodeToString(h[:6]))
}

// collect drains every endpoint and translates what arrived into spec vocabulary.
func (w *World) collect(action, actor string) (obs []Obs, retry bool) {
	cnames := make([]string, 0, len(w.clientAddr))
	for c := range w.clientAddr {
		cnames = append(cnames, c)
	}
	sort.Strings(cnames)
	for _, c := range cnames {
		for _, pk := range w.drainClient(c) {
			o := w.decodeAtClient(c, pk)
			if n, ok := o["nonce"].(string); ok && w.noRetry && n != "" {
				w.nonce = n // always present the nonce of the most recent challenge
			}
			if !w.noRetry && o["k"] == "resp" && toInt(o["code"]) == 438 && c == actor && o["nonce"] != nil {
				w.nonce = o["nonce"].(string)
				retry = true

				continue
			}
			if o["k"] == "resp" && o["cls"] == "ok" && o["m"] == "Allocate" && o["relayaddr"] != nil {
				ra, _ := o["relayaddr"].(*net.UDPAddr)
				if prev, ok := w.relayOwner[key(ra)]; ok && prev != c {
					o["relayclash"] = prev
				}
				w.relayOwner[key(ra)] = c
				w.relayOf[c] = ra
				if tok, ok := o["token"].(string); ok {
					if prev, had := w.tokenOf[c]; had && w.evenPort[c] == ra.Port && prev != tok {
						o["tokenchanged"] = true // a retransmission must replay the same token
					}
					w.tokenOf[c], w.evenPort[c] = tok, ra.Port
				}
			}
			obs = append(obs, o)
		}
	}
	pnames := make([]string, 0, len(w.peers))
	for p := range w.peers {
		pnames = append(pnames, p)
	}
	sort.Strings(pnames)
	for _, p := range pnames {
		for _, pk := range w.peers[p].Drain() {
			ip, port := w.peerKey[p].ip, w.peerKey[p].port
			owner, ok := w.relayOwner[key(pk.From)]
			if !ok {
				owner = "?" + pk.From.String()
			}
			obs = append(obs, Obs{"k": "topeer", "from": owner, "to": []any{ip, port}, "pay": w.payID(pk.Data)})
		}
	}

	return obs, retry
}

func (w *World) decodeAtClient(c string, pk Pkt) Obs {
	if !pk.From.IP.Equal(w.listenAddr[c].IP) || pk.From.Port != w.listenAddr[c].Port {
		return Obs{"k": "junk", "to": c, "why": "from " + pk.From.String()}
	}
	if proto.IsChannelData(pk.Data) {
		cd := proto.ChannelData{Raw: pk.Data}
		if err := cd.Decode(); err != nil {
			return Obs{"k": "junk", "to": c, "why": err.Error()}
		}
		o := Obs{"k": "toclient", "to": c, "via": "chan", "n": int(cd.Number), "pay": w.payID(cd.Data)}
		// wire form: exactly header + data + zero padding to a multiple of 4
		want := 4 + len(cd.Data)
		if r := want % 4; r != 0 {
			want += 4 - r
		}
		if len(pk.Data) != want || int(binary.BigEndian.Uint16(pk.Data[2:4])) != len(cd.Data) {
			o["pay"] = fmt.Sprintf("!framing wire=%d data=%d", len(pk.Data), len(cd.Data))
		}
		for _, b := range pk.Data[min(4+len(cd.Data), len(pk.Data)):] {
			if b != 0 { // the padding is zeros: anything else is bytes of something the client was not sent
				o["pay"] = fmt.Sprintf("!padding % x after %d bytes of data", pk.Data[4+len(cd.Data):], len(cd.Data))

				break
			}
		}

		return o
	}
	m := &stun.Message{Raw: pk.Data}
	if err := m.Decode(); err != nil {
		return Obs{"k": "junk", "to": c, "why": err.Error()}
	}
	switch m.Type.Class {
	case stun.ClassIndication:
		if m.Type.Method != stun.MethodData {
			return Obs{"k": "junk", "to": c, "why": m.Type.String()}
		}
		var pa proto.PeerAddress
		var d proto.Data
		if pa.GetFrom(m) != nil || d.GetFrom(m) != nil {
			return Obs{"k": "junk", "to": c, "why": "bad data indication"}
		}

		return Obs{"k": "toclient", "to": c, "via": "ind", "n": 0,
			"peer": w.peerName(&net.UDPAddr{IP: pa.IP, Port: pa.Port}), "pay": w.payID(d)}
	case stun.ClassSuccessResponse, stun.ClassErrorResponse:
		o := Obs{"k": "resp", "to": c, "m": methodName(m.Type.Method), "code": 0}
		o["txok"] = m.TransactionID == w.curTxid
		if m.Type.Class == stun.ClassSuccessResponse {
			o["cls"] = "ok"
		} else {
			o["cls"] = "err"
			var ec stun.ErrorCodeAttribute
			if ec.GetFrom(m) == nil {
				o["code"] = int(ec.Code)
			}
			var n stun.Nonce
			if n.GetFrom(m) == nil {
				o["nonce"] = n.String()
			}
			var r stun.Realm
			if r.GetFrom(m) == nil {
				o["realm"] = r.String()
			}
		}
		var lt proto.Lifetime
		if lt.GetFrom(m) == nil {
			o["life"] = int(lt.Duration / w.Tick)
			if lt.Duration%w.Tick != 0 {
				o["life"] = -9
			}
		}
		var xm stun.XORMappedAddress
		if xm.GetFrom(m) == nil {
			if ca := w.clientAddr[c]; ca != nil && ca.IP.Equal(xm.IP) && ca.Port == xm.Port {
				o["mapped"] = c
			} else {
				o["mapped"] = w.clientName(&net.UDPAddr{IP: xm.IP, Port: xm.Port})
			}
		}
		var ra proto.RelayedAddress
		if ra.GetFrom(m) == nil {
			o["relayaddr"] = &net.UDPAddr{IP: ra.IP, Port: ra.Port}
		}
		if m.Contains(stun.AttrMessageIntegrity) {
			o["mi"] = true
		}
		var rt proto.ReservationToken
		if rt.GetFrom(m) == nil {
			o["token"] = string(rt)
		}

		return o
	default:
		return Obs{"k": "junk", "to": c, "why": m.Type.String()}
	}
}

func methodName(m stun.Method) string {
	switch m {
	case stun.MethodBinding:
		return "Binding"
	case stun.MethodAllocate:
		return "Allocate"
	case stun.MethodRefresh:
		return "Refresh"
	case stun.MethodCreatePermission:
		return "CreatePermission"
	case stun.MethodChannelBind:
		return "ChannelBind"
	case stun.MethodConnect:
		return "Connect"
	case stun.MethodConnectionBind:
		return "ConnectionBind"
	default:
		return m.String()
	}
}

// ---------------------------------------------------------------------------
// projection of the real server state to the spec's vocabulary

// CState is the projected state of one model client.
type CState struct {
	Live  bool
	User  string
	Fam   int
	Perms []string
	Chans map[int][]any
	Relay string
}

// Proj is the projected server state.
type Proj struct {
	C     map[string]CState
	Extra []string // allocations that belong to no model client
	Count int
	Locks bool // every manager / allocation lock is free
}

// Project reads the real tables through the verif accessors.
func (w *World) Project() Proj {
	pr := Proj{C: map[string]CState{}, Count: w.Srv.AllocationCount(), Locks: true}
	mgrs := w.Srv.VerifManagers()
	seen := map[*allocation.Allocation]bool{}
	for c, ca := range w.clientAddr {
		cs := CState{Chans: map[int][]any{}}
		for mi, m := range mgrs {
			la := w.listen4.addr
			if mi == 1 {
				la = w.listen6.addr
			}
			if !m.VerifLocksFree() {
				pr.Locks = false

				continue
			}
			var al *allocation.Allocation
			if mi >= 2 { // a stream listener's manager (the server keys these 5-tuples with allocation.UDP as well)
				if !w.isStream(c) || (mi == 3) != (c == "sx") {
					continue
				}
				la = w.listenAddr[c]
				al = m.GetAllocation(&allocation.FiveTuple{SrcAddr: &net.TCPAddr{IP: ca.IP, Port: ca.Port},
					DstAddr: &net.TCPAddr{IP: la.IP, Port: la.Port}, Protocol: allocation.UDP})
			} else {
				if w.isStream(c) {
					continue
				}
				al = m.GetAllocation(&allocation.FiveTuple{SrcAddr: ca, DstAddr: la, Protocol: allocation.UDP})
			}
			if al == nil {
				continue
			}
			seen[al] = true
			if la != w.listenAddr[c] {
				pr.Extra = append(pr.Extra, fmt.Sprintf("%s on the other listener", c))

				continue
			}
			if !al.VerifLocksFree() {
				pr.Locks = false

				continue
			}
			cs.Live = true
			cs.User = w.userOfID(al.VerifUserID())
			cs.Fam = 4
			if al.AddressFamily() == proto.RequestedFamilyIPv6 {
				cs.Fam = 6
			}
			if al.RelayAddr == nil { // an allocation that never got a relay socket, registered all the same
				cs.Relay = "<none>"
				pr.Extra = append(pr.Extra, fmt.Sprintf("%s holds an allocation without a relayed address", c))
			} else {
				cs.Relay = al.RelayAddr.String()
			}
			for _, p := range al.ListPermissions() {
				ua, _ := p.Addr.(*net.UDPAddr)
				if ua == nil {
					cs.Perms = append(cs.Perms, "?"+p.Addr.String())

					continue
				}
				cs.Perms = append(cs.Perms, w.ipName(ua.IP))
			}
			sort.Strings(cs.Perms)
			for _, cb := range al.ListChannelBindings() {
				n := int(cb.Number)
				if _, dup := cs.Chans[n]; dup {
					n = -n // the same number twice
				}
				cs.Chans[n] = w.peerName(cb.Peer)
			}
		}
		pr.C[c] = cs
	}
	for _, m := range mgrs {
		if !m.VerifLocksFree() {
			continue
		}
		for _, al := range m.VerifAllocations() {
			if !seen[al] {
				pr.Extra = append(pr.Extra, al.VerifFiveTuple().SrcAddr.String())
			}
		}
	}

	return pr
}

// ---------------------------------------------------------------------------
// defective credentials (C03)

func methodOf(name string) stun.Method {
	switch name {
	case "Allocate":
		return stun.MethodAllocate
	case "Refresh":
		return stun.MethodRefresh
	case "CreatePermission":
		return stun.MethodCreatePermission
	case "ChannelBind":
		return stun.MethodChannelBind
	case "Connect":
		return stun.MethodConnect
	case "ConnectionBind":
		return stun.MethodConnectionBind
	}

	return stun.MethodBinding
}

// badCred builds a request of method m that would change state if it were accepted
// (Refresh with lifetime 0, a permission / channel for a peer no authentic step uses) and
// gives it the credential defect k.
func (w *World) badCred(c, m, k string) ([]byte, error) {
	var attrs []stun.Setter
	switch m {
	case "Allocate":
		attrs = []stun.Setter{proto.RequestedTransport{Protocol: proto.ProtoUDP}}
	case "Refresh":
		attrs = []stun.Setter{proto.Lifetime{Duration: 0}}
	case "CreatePermission":
		attrs = []stun.Setter{w.wirePeer([]any{"B", w.Meta.PeerPorts[0]})}
	case "ChannelBind":
		attrs = []stun.Setter{proto.ChannelNumber(0x4005), w.wirePeer([]any{"B", w.Meta.PeerPorts[0]})}
	case "Connect":
		attrs = []stun.Setter{w.wirePeer([]any{"B", w.Meta.PeerPorts[0]})}
	case "ConnectionBind":
		attrs = []stun.Setter{proto.ConnectionID(7)}
	}
	user := "u1"
	if pr := w.Project(); pr.C[c].Live {
		user = pr.C[c].User // the owner's name, so that only the defect stands between the request and its effect
	}
	pw := "pw-" + user
	nonce := w.nonce
	useUser, useRealm, useNonce, useMI := true, true, true, true
	emptyKey := false
	miUser := user
	presentedRealm := realm
	miRealm := realm
	switch k {
	case "noMI":
		useUser, useRealm, useNonce, useMI = false, false, false, false
	case "noNonce":
		useNonce = false
	case "noUser":
		useUser = false
	case "noRealm":
		useRealm = false
	case "noRealmKeyed":
		// REALM absent, and MESSAGE-INTEGRITY keyed for the empty realm (what a handler that is asked about
		// realm "" would hand back): REALM is mandatory whatever the key
		useRealm = false
		miRealm = ""
	case "otherRealm":
		// REALM names another realm while MESSAGE-INTEGRITY is keyed for the server's realm: the operator's handler
		// is asked for the key of (username, PRESENTED realm), which is not the key this request was signed with
		presentedRealm = "other.example"
	case "ghostUser":
		user, miUser, pw = "ghost", "ghost", "pw-ghost"
	case "revoked": // everything is right, but the operator's handler does not know the user any more (for this request)
		w.deniedMu.Lock()
		w.revoked = user
		w.deniedMu.Unlock()
	case "dupNonce": // integrity over a stale nonce; a fresh NONCE is appended behind MESSAGE-INTEGRITY below
		nonce = w.staleNonce
	case "ghostEmptyKey": // unknown to the operator's handler, integrity computed with the empty key
		user, emptyKey = "ghost", true
	case "wrongPw":
		pw = "not-the-password"
	case "otherUserKey":
		for _, u := range w.Meta.Users {
			if u != user {
				miUser, pw = u, "pw-"+u
			}
		}
	case "forgedNonce":
		nonce = "1z141z4" + fmt.Sprintf("%x", sha256.Sum256([]byte(fmt.Sprint(w.Seed, w.step))))[:18]
	case "mutTsNonce":
		nonce = mutChar(nonce, 0)
	case "futureNonce":
		nonce = "z" + nonce[1:]
	case "mutMacNonce":
		nonce = mutChar(nonce, len(nonce)-1)
	case "otherInstNonce":
		nonce = otherInstanceNonce()
	case "staleNonce":
		nonce = w.staleNonce
	case "emptyNonce":
		nonce = ""
	case "garbageNonce":
		nonce = "!!**--~~"
	case "longNonce": // a genuine nonce with more digits appended (longer than any nonce this server mints)
		nonce += "ZZZZZZZZ"
	case "truncMI", "flipMI", "flipBody", "ok":
	default:
		return nil, fmt.Errorf("unknown credential kind %q", k)
	}
	s := []stun.Setter{txidSetter(w.curTxid), stun.NewType(methodOf(m), stun.ClassRequest)}
	s = append(s, attrs...)
	if useUser {
		s = append(s, stun.NewUsername(user))
	}
	if useRealm {
		s = append(s, stun.NewRealm(presentedRealm))
	}
	if useNonce {
		s = append(s, stun.NewNonce(nonce))
	}
	switch {
	case useMI && emptyKey:
		s = append(s, stun.MessageIntegrity([]byte{}))
	case useMI:
		s = append(s, stun.NewLongTermIntegrity(miUser, miRealm, pw))
	}
	msg, err := stun.Build(s...)
	if err != nil {
		return nil, err
	}
	raw := append([]byte{}, msg.Raw...)
	switch k {
	case "dupNonce":
		v := []byte(w.nonce)
		attr := []byte{0x00, 0x15, byte(len(v) >> 8), byte(len(v))}
		attr = append(attr, v...)
		for len(attr)%4 != 0 {
			attr = append(attr, 0)
		}
		raw = append(raw, attr...)
		binary.BigEndian.PutUint16(raw[2:4], uint16(len(raw)-20)) //nolint:gosec
	case "flipMI":
		raw[len(raw)-1] ^= 0x10
	case "flipBody":
		raw[20+4] ^= 0x01 // first byte of the first attribute's value
	case "truncMI":
		// MESSAGE-INTEGRITY cut to 10 bytes (+2 padding): rewrite attribute and message lengths
		mi := len(raw) - 24
		cut := append([]byte{}, raw[:mi]...)
		cut = append(cut, 0x00, 0x08, 0x00, 0x0a)
		cut = append(cut, raw[mi+4:mi+14]...)
		cut = append(cut, 0, 0)
		binary.BigEndian.PutUint16(cut[2:4], uint16(len(cut)-20)) //nolint:gosec
		raw = cut
	}

	return raw, nil
}

func mutChar(s string, i int) string {
	if len(s) == 0 {
		return "0"
	}
	b := []byte(s)
	if b[i] == 'a' || b[i] == 'A' { // the nonce alphabet is case-insensitive
		b[i] = 'B'
	} else {
		b[i] = 'A'
	}

	return string(b)
}
