// Package verifx is the conformance harness that binds the TLA+ specifications under
// /verif/spec to the real pion/turn code (built from /repo with -tags verif).
package verifx

import (
	"errors"
	"net"
	"os"
	"sync"
	"time"
)

// Pkt is one datagram delivered to an endpoint.
type Pkt struct {
	Data []byte
	From *net.UDPAddr
}

// MemNet is an in-memory datagram network with UDP semantics: a read into a short
// buffer truncates silently, a full queue drops, an unknown destination drops.
type MemNet struct {
	mu    sync.Mutex
	conns map[string]*MemConn
	// Closed counts Close calls per local address (C15: released exactly once).
	Closed map[string]int
	Opened map[string]int

	listeners map[string]*MemListener
	streams   []*MemStream
}

// NewMemNet creates an empty network.
func NewMemNet() *MemNet {
	return &MemNet{conns: map[string]*MemConn{}, Closed: map[string]int{}, Opened: map[string]int{}}
}

// MemConn is a net.PacketConn bound to one address of a MemNet.
type MemConn struct {
	n      *MemNet
	addr   *net.UDPAddr
	ch     chan Pkt
	closed chan struct{}
	once   sync.Once

	dmu      sync.Mutex
	deadline time.Time
	dlCh     chan struct{}

	// WriteErr, when non-nil, is consulted on every WriteTo; a non-nil result fails the write.
	AfterWrite func(p []byte, to net.Addr) // called after the datagram has been handed over, before WriteTo returns
	WriteErr   func(p []byte, to net.Addr) error
	// Drop, when non-nil, is consulted on every WriteTo; true loses the datagram silently.
	Drop func(p []byte, to net.Addr) bool
	// ErrGate, when non-nil, delays the moment a blocked or later ReadFrom reports that the socket was closed
	// until the channel is closed (the exit of a relay reader becomes a step the harness schedules).
	ErrGate chan struct{}
	// ReadErr, when closed, makes ReadFrom fail with a non-ErrClosed error (relay socket failure).
	ReadErr chan struct{}
}

var errAddrInUse = errors.New("memnet: address already in use")
var errInjectedRead = errors.New("memnet: injected read error")

func key(a *net.UDPAddr) string {
	ip := a.IP
	if v4 := ip.To4(); v4 != nil {
		ip = v4
	}

	return (&net.UDPAddr{IP: ip, Port: a.Port}).String()
}

// Listen binds addr.
func (n *MemNet) Listen(addr *net.UDPAddr) (*MemConn, error) {
	n.mu.Lock()
	defer n.mu.Unlock()
	k := key(addr)
	if _, ok := n.conns[k]; ok {
		return nil, errAddrInUse
	}
	c := &MemConn{
		n: n, addr: addr, ch: make(chan Pkt, 4096), closed: make(chan struct{}),
		dlCh: make(chan struct{}), ReadErr: make(chan struct{}),
	}
	n.conns[k] = c
	n.Opened[k]++

	return c, nil
}

// MustListen binds addr or panics.
func (n *MemNet) MustListen(addr *net.UDPAddr) *MemConn {
	c, err := n.Listen(addr)
	if err != nil {
		panic(err)
	}

	return c
}

// Bound reports whether an endpoint is bound at addr.
func (n *MemNet) Bound(addr *net.UDPAddr) bool {
	n.mu.Lock()
	defer n.mu.Unlock()
	_, ok := n.conns[key(addr)]

	return ok
}

// OpenCount returns the number of bound endpoints.
func (n *MemNet) OpenCount() int {
	n.mu.Lock()
	defer n.mu.Unlock()

	return len(n.conns)
}

// ReadFrom implements net.PacketConn.
func (c *MemConn) ReadFrom(p []byte) (int, net.Addr, error) {
	for {
		c.dmu.Lock()
		dl := c.deadline
		dlCh := c.dlCh
		c.dmu.Unlock()
		var timer <-chan time.Time
		if !dl.IsZero() {
			d := time.Until(dl)
			if d <= 0 {
				return 0, nil, os.ErrDeadlineExceeded
			}
			t := time.NewTimer(d)
			defer t.Stop()
			timer = t.C
		}
		select {
		case k := <-c.ch:
			return copy(p, k.Data), k.From, nil
		case <-c.closed:
			if c.ErrGate != nil {
				<-c.ErrGate // the reader learns of the close only when the harness says so
			}

			return 0, nil, net.ErrClosed
		case <-c.ReadErr:
			return 0, nil, errInjectedRead
		case <-timer:
			return 0, nil, os.ErrDeadlineExceeded
		case <-dlCh: // deadline changed, re-evaluate
		}
	}
}

// WriteTo implements net.PacketConn.
func (c *MemConn) WriteTo(p []byte, to net.Addr) (int, error) {
	select {
	case <-c.closed:
		return 0, net.ErrClosed
	default:
	}
	if c.WriteErr != nil {
		if err := c.WriteErr(p, to); err != nil {
			return 0, err
		}
	}
	if c.Drop != nil && c.Drop(p, to) {
		return len(p), nil
	}
	ua, ok := to.(*net.UDPAddr)
	if !ok {
		if ta, ok2 := to.(*net.TCPAddr); ok2 {
			ua = &net.UDPAddr{IP: ta.IP, Port: ta.Port}
		} else {
			return 0, errors.New("memnet: unsupported address type")
		}
	}
	c.n.mu.Lock()
	d := c.n.conns[key(ua)]
	c.n.mu.Unlock()
	if d != nil {
		select {
		case d.ch <- Pkt{append([]byte{}, p...), c.addr}:
		default:
		}
	}
	if c.AfterWrite != nil {
		c.AfterWrite(p, to) // (a socket whose write returns late: the datagram has left already)
	}

	return len(p), nil
}

// Close implements net.PacketConn.
func (c *MemConn) Close() error {
	c.n.mu.Lock()
	c.n.Closed[key(c.addr)]++
	c.n.mu.Unlock()
	already := true
	c.once.Do(func() {
		already = false
		close(c.closed)
		c.n.mu.Lock()
		if c.n.conns[key(c.addr)] == c {
			delete(c.n.conns, key(c.addr))
		}
		c.n.mu.Unlock()
	})
	if already {
		return net.ErrClosed
	}

	return nil
}

// LocalAddr implements net.PacketConn.
func (c *MemConn) LocalAddr() net.Addr { return c.addr }

// SetDeadline implements net.PacketConn.
func (c *MemConn) SetDeadline(t time.Time) error { return c.SetReadDeadline(t) }

// SetReadDeadline implements net.PacketConn.
func (c *MemConn) SetReadDeadline(t time.Time) error {
	c.dmu.Lock()
	c.deadline = t
	old := c.dlCh
	c.dlCh = make(chan struct{})
	c.dmu.Unlock()
	close(old)

	return nil
}

// SetWriteDeadline implements net.PacketConn.
func (c *MemConn) SetWriteDeadline(time.Time) error { return nil }

// Drain returns, without blocking, everything queued at the endpoint.
func (c *MemConn) Drain() []Pkt {
	var out []Pkt
	for {
		select {
		case k := <-c.ch:
			out = append(out, k)
		default:
			return out
		}
	}
}

// Inject delivers a datagram to this endpoint as if it came from `from`.
func (c *MemConn) Inject(data []byte, from *net.UDPAddr) {
	select {
	case c.ch <- Pkt{append([]byte{}, data...), from}:
	default:
	}
}
