package verifx

import (
	"fmt"
	"strconv"
	"time"
)

// reaperSys binds spec/TurnReaper.tla to the real server: one 5-tuple that allocates, ends its allocation
// and allocates again, while the moment at which the relay reader of each ended allocation learns that
// its socket was closed is a step scheduled by the walk (MemConn.ErrGate).
type reaperSys struct {
	w      *World
	step   int
	c      string        // the model client: c1 (datagram listener) or s1 (stream listener)
	park   bool          // the next OnAllocationCreated callback is held
	parkAt string        // ... or the next call-out of this name
	parked chan struct{} // closed by CallbackDone
	down   bool
}

func newReaperSys(meta Meta, seed int64) (Sys, error) {
	life, _ := strconv.Atoi(meta.Extra["Life"])
	c := "c1"
	if meta.Extra["Stream"] == "TRUE" {
		c = "s1"
	}
	m := Meta{
		DefaultLife: life, PermTO: 300, ChanTO: 600, MaxLife: 3600, InboundMTU: 1600,
		Fam: map[string]int{"A": 4}, ListenFam: map[string]int{c: 4}, Clients: []string{c}, Users: []string{"u1"}, PeerPorts: []int{1},
	}
	w, err := NewWorld(m, seed)
	if err != nil {
		return nil, err
	}
	w.gen.gate = true
	s := &reaperSys{w: w, c: c}
	w.gate = func(point string) {
		if point == s.parkAt && s.park {
			s.park = false
			<-s.parked // the operator's callback takes its time (the harness decides how long)
		}
	}

	return s, nil
}

func (s *reaperSys) Close() {
	s.w.gen.mu.Lock()
	s.w.gen.gate = false // relay sockets created from now on report their close at once
	s.w.gen.mu.Unlock()
	if s.parked != nil {
		select {
		case <-s.parked:
		default:
			close(s.parked)
		}
		time.Sleep(time.Millisecond) // (inside the bubble: the released handler runs to its end first)
	}
	s.w.gen.mu.Lock()
	for _, c := range s.w.gen.Order {
		select {
		case <-c.ErrGate:
		default:
			close(c.ErrGate)
		}
	}
	s.w.gen.mu.Unlock()
	s.w.Close()
}

func (s *reaperSys) Do(a map[string]any, wait func()) ([]Obs, error) {
	s.step++
	var obs []Obs
	var err error
	switch a["a"] {
	case "Allocate":
		obs, err = s.w.Do(map[string]any{"a": "Allocate", "c": s.c, "u": "u1", "lr": -1, "tx": fmt.Sprintf("t%d", s.step), "rf": 0, "tk": "none"}, wait)
	case "Refresh":
		obs, err = s.w.Do(map[string]any{"a": "Refresh", "c": s.c, "u": "u1", "lr": -1, "rf": 0}, wait)
	case "RefreshZero":
		obs, err = s.w.Do(map[string]any{"a": "Refresh", "c": s.c, "u": "u1", "lr": 0, "rf": 0}, wait)
	case "AllocateSlow", "AllocateSlowAuth":
		s.park, s.parked, s.parkAt = true, make(chan struct{}), "callout.alloccreated"
		if a["a"] == "AllocateSlowAuth" {
			s.parkAt = "callout.auth"
		}
		obs, err = s.w.Do(map[string]any{"a": "Allocate", "c": s.c, "u": "u1", "lr": -1, "tx": fmt.Sprintf("t%d", s.step), "rf": 0, "tk": "none"}, wait)
	case "CallbackDone":
		close(s.parked)
		wait()
		obs, _ = s.w.collect("CallbackDone", s.c)
	case "ServerClose":
		_ = s.w.Srv.Close()
		s.w.down, s.down = true, true
		wait()
		obs, _ = s.w.collect("ServerClose", s.c)
	case "Advance":
		time.Sleep(time.Duration(toInt(a["d"])) * time.Second) // (not through World.Do: no nonce traffic while a handler is parked)
		wait()
		obs, _ = s.w.collect("Advance", s.c)
	case "ReaderExit":
		g := toInt(a["g"])
		s.w.gen.mu.Lock()
		if g < 1 || g > len(s.w.gen.Order) {
			s.w.gen.mu.Unlock()

			return nil, fmt.Errorf("ReaderExit(%d): only %d relay sockets were handed out", g, len(s.w.gen.Order))
		}
		c := s.w.gen.Order[g-1]
		s.w.gen.mu.Unlock()
		select {
		case <-c.closed:
		default:
			return nil, fmt.Errorf("ReaderExit(%d): the relay socket of allocation %d is still open", g, g)
		}
		close(c.ErrGate)
		wait()
		obs, _ = s.w.collect("ReaderExit", s.c)
	default:
		return nil, fmt.Errorf("unknown reaper action %v", a["a"])
	}

	return obs, err
}

func (s *reaperSys) Check(e Edge, obs []Obs) []Mismatch {
	var ms []Mismatch
	var want map[string]any
	for _, x := range e.O {
		want, _ = x.(map[string]any)
	}
	var got Obs
	for _, o := range obs {
		if o["k"] == "resp" {
			got = o
		} else {
			ms = append(ms, Mismatch{"reaper.out", fmt.Sprintf("unexpected %v", o)})
		}
	}
	if want != nil && want["opt"] == true && got == nil {
		want = nil // an answer that cannot be delivered any more
	}
	switch {
	case want == nil && got != nil && got["cls"] == "ok":
		ms = append(ms, Mismatch{"reaper.resp", fmt.Sprintf("spec: no answer; server answered %v success", got["m"])})
	case want != nil && got == nil:
		ms = append(ms, Mismatch{"reaper.resp", fmt.Sprintf("no %v response", want["m"])})
	case want != nil:
		if got["m"] != want["m"] || got["cls"] != want["cls"] {
			ms = append(ms, Mismatch{"reaper.resp", fmt.Sprintf("spec %v %v, server %v %v (code %v)", want["m"], want["cls"], got["m"], got["cls"], got["code"])})
		} else if l := toInt(want["life"]); l >= 0 && toInt(got["life"]) != l {
			ms = append(ms, Mismatch{"reaper.resp", fmt.Sprintf("%v LIFETIME: spec %d, server %v", want["m"], l, got["life"])})
		}
	}
	ts, _ := e.TS.(map[string]any)
	live, _ := ts["live"].(bool)
	if s.down {
		// after Server.Close: nothing is left -- no allocation, no open relay socket
		open := 0
		s.w.gen.mu.Lock()
		for _, c := range s.w.gen.Order {
			select {
			case <-c.closed:
			default:
				open++
			}
		}
		s.w.gen.mu.Unlock()
		// (Manager.Close closes the allocations; each leaves the table when its relay reader notices, which is a step of
		// its own in this walk: the count is judged once no straggler is left)
		zs, _ := ts["zombies"].([]any)
		n := s.w.Srv.AllocationCount()
		if open != 0 || (len(zs) == 0 && n != 0) {
			ms = append(ms, Mismatch{"reaper.state", fmt.Sprintf("after %v on the closed server: AllocationCount() = %d with %d stragglers left, %d relay sockets still open", canon(e.A), n, len(zs), open)})
		}

		return ms
	}
	// one 5-tuple, at most one allocation: the relay sockets that are open are the live allocation's and nobody else's
	openSocks := 0
	s.w.gen.mu.Lock()
	for _, c := range s.w.gen.Order {
		select {
		case <-c.closed:
		default:
			openSocks++
		}
	}
	s.w.gen.mu.Unlock()
	if want := map[bool]int{true: 1, false: 0}[live]; openSocks != want {
		ms = append(ms, Mismatch{"reaper.sockets", fmt.Sprintf("after %v: %d relay sockets are open for this 5-tuple, %d allocations are live in the specification", canon(e.A), openSocks, want)})
	}
	pr := s.w.Project()
	if pr.C[s.c].Live != live || (pr.Count == 1) != live {
		ms = append(ms, Mismatch{"reaper.state", fmt.Sprintf("after %v: the specification's allocation (generation %v) is live=%v, the server has %d allocations (this 5-tuple: %v)",
			canon(e.A), ts["gen"], live, pr.Count, pr.C[s.c].Live)})
	}
	if !pr.Locks {
		ms = append(ms, Mismatch{"locks", "a manager or allocation lock is held at a quiescent point"})
	}

	return ms
}
