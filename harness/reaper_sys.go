package verifx

import (
	"fmt"
	"strconv"
)

// reaperSys binds spec/TurnReaper.tla to the real server: one 5-tuple that allocates, ends its allocation
// and allocates again, while the moment at which the relay reader of each ended allocation learns that
// its socket was closed is a step scheduled by the walk (MemConn.ErrGate).
type reaperSys struct {
	w    *World
	step int
}

func newReaperSys(meta Meta, seed int64) (Sys, error) {
	life, _ := strconv.Atoi(meta.Extra["Life"])
	m := Meta{
		DefaultLife: life, PermTO: 300, ChanTO: 600, MaxLife: 3600, InboundMTU: 1600,
		Fam: map[string]int{"A": 4}, ListenFam: map[string]int{"c1": 4}, Clients: []string{"c1"}, Users: []string{"u1"}, PeerPorts: []int{1},
	}
	w, err := NewWorld(m, seed)
	if err != nil {
		return nil, err
	}
	w.gen.gate = true

	return &reaperSys{w: w}, nil
}

func (s *reaperSys) Close() {
	s.w.gen.mu.Lock()
	for _, c := range s.w.gen.Order {
		select {
		case <-c.ErrGate:
		default:
			close(c.ErrGate)
		}
	}
	s.w.gen.mu.Unlock()
	s.w.Close()
}

func (s *reaperSys) Do(a map[string]any, wait func()) ([]Obs, error) {
	s.step++
	var obs []Obs
	var err error
	switch a["a"] {
	case "Allocate":
		obs, err = s.w.Do(map[string]any{"a": "Allocate", "c": "c1", "u": "u1", "lr": -1, "tx": fmt.Sprintf("t%d", s.step), "rf": 0, "tk": "none"}, wait)
	case "Refresh":
		obs, err = s.w.Do(map[string]any{"a": "Refresh", "c": "c1", "u": "u1", "lr": -1, "rf": 0}, wait)
	case "RefreshZero":
		obs, err = s.w.Do(map[string]any{"a": "Refresh", "c": "c1", "u": "u1", "lr": 0, "rf": 0}, wait)
	case "Advance":
		obs, err = s.w.Do(map[string]any{"a": "Advance", "d": a["d"]}, wait)
	case "ReaderExit":
		g := toInt(a["g"])
		s.w.gen.mu.Lock()
		if g < 1 || g > len(s.w.gen.Order) {
			s.w.gen.mu.Unlock()

			return nil, fmt.Errorf("ReaderExit(%d): only %d relay sockets were handed out", g, len(s.w.gen.Order))
		}
		c := s.w.gen.Order[g-1]
		s.w.gen.mu.Unlock()
		select {
		case <-c.closed:
		default:
			return nil, fmt.Errorf("ReaderExit(%d): the relay socket of allocation %d is still open", g, g)
		}
		close(c.ErrGate)
		wait()
		obs, _ = s.w.collect("ReaderExit", "c1")
	default:
		return nil, fmt.Errorf("unknown reaper action %v", a["a"])
	}

	return obs, err
}

func (s *reaperSys) Check(e Edge, obs []Obs) []Mismatch {
	var ms []Mismatch
	var want map[string]any
	for _, x := range e.O {
		want, _ = x.(map[string]any)
	}
	var got Obs
	for _, o := range obs {
		if o["k"] == "resp" {
			got = o
		} else {
			ms = append(ms, Mismatch{"reaper.out", fmt.Sprintf("unexpected %v", o)})
		}
	}
	switch {
	case want == nil && got != nil && got["cls"] == "ok":
		ms = append(ms, Mismatch{"reaper.resp", fmt.Sprintf("spec: no answer; server answered %v success", got["m"])})
	case want != nil && got == nil:
		ms = append(ms, Mismatch{"reaper.resp", fmt.Sprintf("no %v response", want["m"])})
	case want != nil:
		if got["m"] != want["m"] || got["cls"] != want["cls"] {
			ms = append(ms, Mismatch{"reaper.resp", fmt.Sprintf("spec %v %v, server %v %v (code %v)", want["m"], want["cls"], got["m"], got["cls"], got["code"])})
		} else if l := toInt(want["life"]); l >= 0 && toInt(got["life"]) != l {
			ms = append(ms, Mismatch{"reaper.resp", fmt.Sprintf("%v LIFETIME: spec %d, server %v", want["m"], l, got["life"])})
		}
	}
	ts, _ := e.TS.(map[string]any)
	live, _ := ts["live"].(bool)
	pr := s.w.Project()
	if pr.C["c1"].Live != live || (pr.Count == 1) != live {
		ms = append(ms, Mismatch{"reaper.state", fmt.Sprintf("after %v: the specification's allocation (generation %v) is live=%v, the server has %d allocations (this 5-tuple: %v)",
			canon(e.A), ts["gen"], live, pr.Count, pr.C["c1"].Live)})
	}
	if !pr.Locks {
		ms = append(ms, Mismatch{"locks", "a manager or allocation lock is held at a quiescent point"})
	}

	return ms
}
