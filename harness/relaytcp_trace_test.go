package verifx

import (
	"bytes"
	"crypto/sha256"
	"errors"
	"fmt"
	"io"
	"math/rand"
	"net"
	"os"
	"strings"
	"sync"
	"testing"
	"testing/synctest"
	"time"

	"github.com/pion/transport/v4"
	turn "github.com/pion/turn/v5"
)

// Engine B driver for the RFC 6062 relay end to end (spec/TraceRelayTCP.tla): the real turn.Client with a TCP
// allocation (Dial, Accept, BindConnection, the refresh timers of client.TCPAllocation) against the real turn.Server,
// every connection an in-memory stream.  Peers listen (or refuse), dial the relayed address with and without a
// permission, both ends write numbered byte streams of any chunking, either end closes, and the application idles for
// minutes between steps (the permission and allocation horizons pass while connections stay open).  Recorded: what
// each call returned and who saw what; the specification keeps the ledger.

type memTCPGen struct {
	net  *MemNet
	mu   sync.Mutex
	next int
}

func (g *memTCPGen) Validate() error { return nil }

func (g *memTCPGen) AllocatePacketConn(turn.AllocateListenerConfig) (net.PacketConn, net.Addr, error) {
	return nil, nil, errors.New("memTCPGen: datagram relays are not part of this world")
}

func (g *memTCPGen) AllocateListener(c turn.AllocateListenerConfig) (net.Listener, net.Addr, error) {
	g.mu.Lock()
	defer g.mu.Unlock()
	g.next++
	port := c.RequestedPort
	if port == 0 {
		port = 50000 + g.next
	}
	a := &net.TCPAddr{IP: net.IPv4(10, 0, 0, 1).To4(), Port: port}
	l, err := g.net.ListenTCP(a)
	if err != nil {
		return nil, nil, err
	}

	return l, a, nil
}

func (g *memTCPGen) AllocateConn(c turn.AllocateConnConfig) (net.Conn, error) {
	la, _ := c.LocalAddr.(*net.TCPAddr)
	ra, _ := c.RemoteAddr.(*net.TCPAddr)
	if la == nil || ra == nil {
		return nil, errors.New("memTCPGen: need TCP addresses")
	}

	return g.net.DialTCP(la, ra)
}

// memTCP makes a MemStream a transport.TCPConn (only what the client uses).
type memTCP struct {
	transport.TCPConn
	s *MemStream
}

func (m memTCP) Read(p []byte) (int, error)         { return m.s.Read(p) }
func (m memTCP) Write(p []byte) (int, error)        { return m.s.Write(p) }
func (m memTCP) Close() error                       { return m.s.Close() }
func (m memTCP) LocalAddr() net.Addr                { return m.s.LocalAddr() }
func (m memTCP) RemoteAddr() net.Addr               { return m.s.RemoteAddr() }
func (m memTCP) SetDeadline(t time.Time) error      { return m.s.SetDeadline(t) }
func (m memTCP) SetReadDeadline(t time.Time) error  { return m.s.SetReadDeadline(t) }
func (m memTCP) SetWriteDeadline(t time.Time) error { return m.s.SetWriteDeadline(t) }

// tcpDialNet is the transport.Net of the client: data connections are dialled on the in-memory network from fresh
// ports of the client's address.
type tcpDialNet struct {
	fakeNet
	mn   *MemNet
	mu   sync.Mutex
	port int
}

func (f *tcpDialNet) DialTCP(_ string, _, raddr *net.TCPAddr) (transport.TCPConn, error) {
	f.mu.Lock()
	f.port++
	la := &net.TCPAddr{IP: net.IPv4(10, 0, 0, 11).To4(), Port: 41000 + f.port}
	f.mu.Unlock()
	st, err := f.mn.DialTCP(la, &net.TCPAddr{IP: raddr.IP.To4(), Port: raddr.Port})
	if err != nil {
		return nil, err
	}

	return memTCP{s: st}, nil
}

// stream i of connection id in direction dir: a deterministic byte stream, so that any chunking can be verified
func tcpStreamBytes(seed int64, id int, dir string, off, n int) []byte {
	out := make([]byte, 0, n)
	for blk := off / 32; len(out) < n+off%32; blk++ {
		h := sha256.Sum256([]byte(fmt.Sprintf("relaytcp/%d/%d/%s/%d", seed, id, dir, blk)))
		out = append(out, h[:]...)
	}

	return out[off%32 : off%32+n]
}

type rtcpConn struct {
	id        int
	peer      string
	clientEnd net.Conn
	peerEnd   *MemStream
	sent      map[string]int
	rcvd      map[string]int
}

func runRelayTCPExecution(t *testing.T, seed int64, log *traceLog) { //nolint:cyclop,maintidx
	t.Helper()
	synctest.Test(t, func(t *testing.T) {
		rng := rand.New(rand.NewSource(seed)) //nolint:gosec
		mn := NewMemNet()
		laddr := &net.TCPAddr{IP: net.IPv4(10, 0, 0, 1).To4(), Port: 3478}
		lis, err := mn.ListenTCP(laddr)
		if err != nil {
			t.Fatal(err)
		}
		gen := &memTCPGen{net: mn}
		srv, err := turn.NewServer(turn.ServerConfig{
			Realm: realm, LoggerFactory: quietLoggerFactory{},
			AuthHandler: func(ra *turn.RequestAttributes) (string, []byte, bool) {
				return ra.Username, turn.GenerateAuthKey(ra.Username, ra.Realm, "pw-"+ra.Username), ra.Username == "u1"
			},
			ListenerConfigs: []turn.ListenerConfig{{Listener: lis, RelayAddressGenerator: gen}},
		})
		if err != nil {
			t.Fatal(err)
		}
		ctrl, err := mn.DialTCP(&net.TCPAddr{IP: net.IPv4(10, 0, 0, 11).To4(), Port: 40001}, laddr)
		if err != nil {
			t.Fatal(err)
		}
		cl, err := turn.NewClient(&turn.ClientConfig{
			STUNServerAddr: laddr.String(), TURNServerAddr: laddr.String(), Conn: turn.NewSTUNConn(ctrl),
			Username: "u1", Password: "pw-u1", Realm: realm, LoggerFactory: quietLoggerFactory{}, Net: &tcpDialNet{mn: mn},
		})
		if err != nil {
			t.Fatal(err)
		}
		if err := cl.Listen(); err != nil {
			t.Fatal(err)
		}
		alloc, err := cl.AllocateTCP()
		if err != nil {
			t.Fatalf("allocate tcp: %v", err)
		}
		relay, _ := alloc.Addr().(*net.TCPAddr)
		log.add(map[string]any{"e": "Reset", "seed": seed})
		start := time.Now()
		sec := func() int { return int(time.Since(start) / time.Second) }

		// peers: A/1 and A/2 share an IP, B/1 has its own, C/1 does not listen
		peerAddr := map[string]*net.TCPAddr{
			"A/1": {IP: net.IPv4(10, 1, 0, 1).To4(), Port: 5001}, "A/2": {IP: net.IPv4(10, 1, 0, 1).To4(), Port: 5002},
			"B/1": {IP: net.IPv4(10, 1, 1, 2).To4(), Port: 5001}, "C/1": {IP: net.IPv4(10, 1, 2, 3).To4(), Port: 5001},
		}
		peerNames := []string{"A/1", "A/2", "B/1", "C/1"}
		peerLis := map[string]*MemListener{}
		accepted := map[string]chan net.Conn{}
		for _, k := range peerNames[:3] {
			l, err := mn.ListenTCP(peerAddr[k])
			if err != nil {
				t.Fatal(err)
			}
			peerLis[k] = l
			ch := make(chan net.Conn, 8)
			accepted[k] = ch
			go func() {
				for {
					c, err := l.Accept()
					if err != nil {
						return
					}
					ch <- c
				}
			}()
		}
		conns := map[int]*rtcpConn{}
		nextID := 0
		openTo := func(k string) bool {
			for _, c := range conns {
				if c.peer == k {
					return true
				}
			}

			return false
		}
		ipOf := func(k string) string { return k[:1] }
		// drain: what has arrived at either end of every open connection
		drain := func() {
			for id := 0; id < nextID; id++ {
				c := conns[id]
				if c == nil {
					continue
				}
				// at the peer
				if b := c.peerEnd.Buffered(); len(b) > 0 {
					want := tcpStreamBytes(seed, id, "c2p", c.rcvd["c2p"], len(b))
					log.add(map[string]any{"e": "Recv", "id": id, "dir": "c2p", "n": len(b), "ok": bytes.Equal(b, want)})
					c.rcvd["c2p"] += len(b)
				}
				// at the client
				buf := make([]byte, 1<<20)
				got := 0
				for {
					_ = c.clientEnd.SetReadDeadline(time.Now().Add(time.Millisecond))
					n, err := c.clientEnd.Read(buf[got:])
					got += n
					if err != nil || n == 0 {
						break
					}
				}
				_ = c.clientEnd.SetReadDeadline(time.Time{})
				if got > 0 {
					want := tcpStreamBytes(seed, id, "p2c", c.rcvd["p2c"], got)
					log.add(map[string]any{"e": "Recv", "id": id, "dir": "p2c", "n": got, "ok": bytes.Equal(buf[:got], want)})
					c.rcvd["p2c"] += got
				}
			}
		}
		// The client's nonce goes stale once an hour and stays so until its next periodic request has been answered 438.
		// Connect and ConnectionBind of the TCP allocation do not retry on 438 (and the public CreatePermission hands
		// "try again" to its caller), so an application that dials or accepts in that window gets an error: behaviour
		// outside the listed properties, noted in DESIGN.md.  This application avoids the window the way a careful one
		// would: it asks for a permission (for an address nobody uses) until that succeeds, which renews the nonce.
		spare := &net.TCPAddr{IP: net.IPv4(10, 1, 3, 4).To4(), Port: 5001}
		lastFresh := time.Now()
		freshen := func() {
			if time.Since(lastFresh) < 30*time.Second {
				return
			}
			for i := 0; i < 3; i++ {
				if err := cl.CreatePermission(spare); err == nil {
					break
				}
			}
			lastFresh = time.Now()
		}
		nops := 25 + rng.Intn(30)
		for op := 0; op < nops; op++ {
			x := rng.Intn(100)
			if x < 44 {
				freshen()
			}
			switch {
			case x < 18: // the application dials a peer through the relay
				k := peerNames[rng.Intn(len(peerNames))]
				dup := openTo(k)
				type res struct {
					c   net.Conn
					err error
				}
				rc := make(chan res, 1)
				go func() {
					c, err := alloc.DialTCP("tcp", nil, peerAddr[k])
					rc <- res{c, err}
				}()
				time.Sleep(8 * time.Second) // a refused Connect may take a whole transaction to come back
				synctest.Wait()
				var r res
				select {
				case r = <-rc:
				default:
					log.add(map[string]any{"e": "Stuck", "what": "DialTCP did not return within 8 s", "peer": k, "t": sec()})

					return
				}
				ev := map[string]any{"e": "Dial", "peer": k, "ip": ipOf(k), "listening": peerLis[k] != nil, "dup": dup, "ok": r.err == nil, "t": sec()}
				if r.err == nil {
					var pe net.Conn
					select {
					case pe = <-accepted[k]:
					default:
					}
					if pe == nil {
						ev["peer_saw"] = "nothing"
					} else {
						ev["id"] = nextID
						ev["peer_saw"] = "other"
						if pe.RemoteAddr().String() == relay.String() {
							ev["peer_saw"] = "relay"
						}
						ev["remote"] = r.c.RemoteAddr().String() == peerAddr[k].String()
						ev["local"] = r.c.LocalAddr().String() == relay.String()
						conns[nextID] = &rtcpConn{id: nextID, peer: k, clientEnd: r.c, peerEnd: pe.(*MemStream), sent: map[string]int{}, rcvd: map[string]int{}} //nolint:forcetypeassert
						nextID++
					}
				} else {
					ev["err"] = r.err.Error()
					// a peer that did accept a connection the client was refused: it must have been closed again
					select {
					case pe := <-accepted[k]:
						synctest.Wait()
						ev["stray_open"] = !pe.(*MemStream).PeerClosed() //nolint:forcetypeassert
						_ = pe.Close()
					default:
					}
				}
				log.add(ev)
			case x < 26: // a permission for a peer's IP
				k := peerNames[rng.Intn(3)]
				err := cl.CreatePermission(peerAddr[k])
				log.add(map[string]any{"e": "Perm", "ip": ipOf(k), "ok": err == nil, "t": sec()})
			case x < 44: // a peer dials the relayed address; the application accepts
				k := peerNames[rng.Intn(3)]
				dup := openTo(k)
				pe, derr := mn.DialTCP(peerAddr[k], relay)
				if derr != nil {
					log.add(map[string]any{"e": "Inbound", "peer": k, "ip": ipOf(k), "dup": dup, "refused": true, "accepted": false, "t": sec()})

					break
				}
				synctest.Wait()
				_ = alloc.SetDeadline(time.Now().Add(2 * time.Second))
				c, aerr := alloc.AcceptTCP()
				synctest.Wait()
				ev := map[string]any{"e": "Inbound", "peer": k, "ip": ipOf(k), "dup": dup, "refused": false, "accepted": aerr == nil, "t": sec()}
				if aerr == nil {
					ev["id"] = nextID
					ev["from"] = c.RemoteAddr().String() == peerAddr[k].String()
					ev["local"] = c.LocalAddr().String() == relay.String()
					ev["peer_open"] = !pe.PeerClosed()
					conns[nextID] = &rtcpConn{id: nextID, peer: k, clientEnd: c, peerEnd: pe, sent: map[string]int{}, rcvd: map[string]int{}}
					nextID++
				} else {
					ev["peer_closed"] = pe.PeerClosed()
					_ = pe.Close()
				}
				log.add(ev)
			case x < 80: // bytes, either way, any chunking
				if len(conns) == 0 {
					continue
				}
				ids := make([]int, 0, len(conns))
				for id := 0; id < nextID; id++ {
					if conns[id] != nil {
						ids = append(ids, id)
					}
				}
				c := conns[ids[rng.Intn(len(ids))]]
				dir := []string{"c2p", "p2c"}[rng.Intn(2)]
				n := 1 + rng.Intn(3000)
				if rng.Intn(8) == 0 {
					n = 20000 + rng.Intn(100000)
				}
				data := tcpStreamBytes(seed, c.id, dir, c.sent[dir], n)
				var werr error
				if dir == "c2p" {
					_, werr = c.clientEnd.Write(data)
				} else {
					_, werr = c.peerEnd.Write(data)
				}
				log.add(map[string]any{"e": "Send", "id": c.id, "dir": dir, "n": n, "ok": werr == nil, "t": sec()})
				if werr == nil {
					c.sent[dir] += n
				}
				synctest.Wait()
				drain()
				log.add(map[string]any{"e": "Settle"})
			case x < 90: // either end closes
				if len(conns) == 0 {
					continue
				}
				var c *rtcpConn
				for id := 0; id < nextID && c == nil; id++ {
					if conns[id] != nil && rng.Intn(2) == 0 {
						c = conns[id]
					}
				}
				if c == nil {
					continue
				}
				side := []string{"client", "peer"}[rng.Intn(2)]
				eof := false
				if side == "client" {
					_ = c.clientEnd.Close()
					synctest.Wait()
					eof = c.peerEnd.PeerClosed()
					_ = c.peerEnd.Close()
				} else {
					_ = c.peerEnd.Close()
					synctest.Wait()
					_ = c.clientEnd.SetReadDeadline(time.Now().Add(time.Millisecond))
					_, rerr := c.clientEnd.Read(make([]byte, 16))
					eof = errors.Is(rerr, io.EOF)
					_ = c.clientEnd.Close()
				}
				synctest.Wait()
				log.add(map[string]any{"e": "Close", "id": c.id, "side": side, "eof": eof, "t": sec()})
				delete(conns, c.id)
			default: // the application does nothing for a while: 20 s to 11 min
				d := 20 + rng.Intn(640)
				time.Sleep(time.Duration(d) * time.Second)
				synctest.Wait()
				log.add(map[string]any{"e": "Idle", "d": d, "t": sec()})
			}
		}
		// (Close sends its Refresh(0) without waiting for the answer: with a nonce that has gone stale the allocation
		// would stay -- known finding D18, decided by the keep-alive driver.  Here the nonce is made fresh first.)
		lastFresh = time.Time{}
		freshen()
		n0 := srv.AllocationCount()
		_ = alloc.Close()
		synctest.Wait()
		time.Sleep(8 * time.Second)
		synctest.Wait()
		// everything the allocation had is closed by the server
		still := 0
		for _, c := range conns {
			if !c.peerEnd.PeerClosed() {
				still++
			}
			_ = c.peerEnd.Close()
			_ = c.clientEnd.Close()
		}
		log.add(map[string]any{"e": "End", "count_before": n0, "count_after": srv.AllocationCount(), "peer_conns_still_open": still})
		cl.Close()
		_ = ctrl.Close()
		for _, l := range peerLis {
			_ = l.Close()
		}
		_ = srv.Close()
		synctest.Wait()
	})
}

// TestRelayTCPTrace records VERIF_NTRACES executions into VERIF_TRACE_OUT.
func TestRelayTCPTrace(t *testing.T) {
	out := os.Getenv("VERIF_TRACE_OUT")
	if out == "" {
		t.Skip("VERIF_TRACE_OUT not set")
	}
	startWatchdogFor(t)
	seed := envInt("VERIF_SEED", 1)
	n := int(envInt("VERIF_NTRACES", 8))
	log := &traceLog{}
	for i := 0; i < n; i++ {
		markProgress(fmt.Sprintf("relaytcp execution %d", i))
		runRelayTCPExecution(t, seed*1000+int64(i), log)
	}
	markProgress("")
	if err := os.WriteFile(out, []byte(strings.Join(log.lines, "\n")+"\n"), 0o644); err != nil {
		t.Fatal(err)
	}
	t.Logf("recorded %d executions, %d events", n, len(log.lines))
}
