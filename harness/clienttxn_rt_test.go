package verifx

import (
	"crypto/sha256"
	"fmt"
	"math/rand"
	"net"
	"os"
	"strings"
	"sync"
	"sync/atomic"
	"testing"
	"time"

	"github.com/pion/stun/v3"
	turn "github.com/pion/turn/v5"
)

// Engine B driver for C12 in REAL time (spec/TraceClientTxnRT.tla): many concurrent transactions of the
// real client, responses injected within a few milliseconds of retransmission deadlines, and
// retransmission writes that are slow while the client holds its table lock.  No virtual clock: a
// goroutine waiting for a mutex is exactly what this driver is after.  Only the order of the events in
// the one log is judged.

func runClientTxnRT(t *testing.T, seed int64, log *traceLog) {
	t.Helper()
	rng := rand.New(rand.NewSource(seed)) //nolint:gosec
	var rmu sync.Mutex
	rnd := func(n int) int {
		rmu.Lock()
		defer rmu.Unlock()

		return rng.Intn(n)
	}
	mn := NewMemNet()
	saddr := &net.UDPAddr{IP: net.IPv4(10, 0, 0, 1).To4(), Port: 3478}
	caddr := &net.UDPAddr{IP: net.IPv4(10, 0, 0, 11).To4(), Port: 40001}
	server := mn.MustListen(saddr)
	cconn := mn.MustListen(caddr)
	rto := 5 * time.Millisecond
	var nmu sync.Mutex
	var gate atomic.Pointer[rtxGate]
	name := map[[stun.TransactionIDSize]byte]string{}
	writes := map[string]int{}
	cconn.WriteErr = func(p []byte, _ net.Addr) error {
		m := &stun.Message{Raw: append([]byte{}, p...)}
		if m.Decode() != nil {
			return nil
		}
		nmu.Lock()
		tn, ok := name[m.TransactionID]
		var n int
		if ok {
			writes[tn]++
			n = writes[tn]
		}
		nmu.Unlock()
		if !ok {
			return nil
		}
		log.add(map[string]any{"e": "Sent", "t": tn, "n": n})
		if g := gate.Load(); g != nil && g.t == tn && n == 2 {
			log.add(map[string]any{"e": "WriteEnter", "t": tn})
			g.parked()
			<-g.release
			log.add(map[string]any{"e": "WriteExit", "t": tn})

			return errInjectedWrite
		}
		if n > 1 && rnd(2) == 0 { // a slow socket: the client holds its transaction-table lock across this write
			time.Sleep(time.Duration(3+rnd(12)) * time.Millisecond)
		}

		return nil
	}
	cl, err := turn.NewClient(&turn.ClientConfig{
		STUNServerAddr: saddr.String(), TURNServerAddr: saddr.String(), Conn: cconn, RTO: rto,
		Username: "u1", Password: "pw-u1", Realm: realm, LoggerFactory: quietLoggerFactory{}, Net: newFakeNet(),
	})
	if err != nil {
		t.Fatal(err)
	}
	if err := cl.Listen(); err != nil {
		t.Fatal(err)
	}
	go func() { // the scripted server only swallows requests; answers are injected by the schedule below
		buf := make([]byte, 2000)
		for {
			if _, _, err := server.ReadFrom(buf); err != nil {
				return
			}
		}
	}()
	log.add(map[string]any{"e": "Reset", "seed": seed})
	// deadline k (k = 1..7) of a transaction, measured from its start, when no write is slow
	deadline := func(k int) time.Duration {
		d, iv := time.Duration(0), rto
		for i := 0; i < k; i++ {
			d += iv
			iv *= 2
			if iv > 1600*time.Millisecond {
				iv = 1600 * time.Millisecond
			}
		}

		return d
	}
	var wg sync.WaitGroup
	var omu sync.Mutex
	outstanding := 0
	ntx := 24 + rnd(16)
	for i := 0; i < ntx; i++ {
		tn := fmt.Sprintf("x%d", i)
		h := sha256.Sum256([]byte(fmt.Sprintf("rt/%d/%s", seed, tn)))
		var id [stun.TransactionIDSize]byte
		copy(id[:], h[:])
		nmu.Lock()
		name[id] = tn
		nmu.Unlock()
		startAfter := time.Duration(rnd(120)) * time.Millisecond
		// when the answer comes: never, at once, or around one of the deadlines
		var answerAt time.Duration = -1
		switch r := rnd(10); {
		case r < 1:
		case r < 3:
			answerAt = time.Duration(rnd(3)) * time.Millisecond
		default:
			answerAt = deadline(1+rnd(7)) + time.Duration(rnd(7)-4)*time.Millisecond
		}
		wg.Add(1)
		omu.Lock()
		outstanding++
		omu.Unlock()
		go func() {
			defer wg.Done()
			time.Sleep(startAfter)
			msg := stun.MustBuild(txidSetter(id), stun.BindingRequest)
			if answerAt >= 0 {
				go func() {
					time.Sleep(answerAt)
					m := stun.MustBuild(txidSetter(id), stun.BindingSuccess, &stun.XORMappedAddress{IP: caddr.IP, Port: caddr.Port})
					log.add(map[string]any{"e": "Resp", "t": tn})
					_, _ = server.WriteTo(m.Raw, caddr)
				}()
			}
			log.add(map[string]any{"e": "Start", "t": tn})
			res, err := cl.PerformTransaction(msg, saddr, false)
			r := "err:" + fmt.Sprint(err)
			switch {
			case err == nil && res.Msg != nil && res.Msg.TransactionID == id:
				r = "resp"
			case err == nil:
				r = "otherresp"
			case strings.Contains(err.Error(), "retransmissions failed"):
				r = "timeout"
			}
			log.add(map[string]any{"e": "Ret", "t": tn, "res": r})
			omu.Lock()
			outstanding--
			omu.Unlock()
		}()
	}
	done := make(chan struct{})
	go func() {
		wg.Wait()
		close(done)
	}()
	select {
	case <-done:
	case <-time.After(20 * time.Second): // a timed-out transaction takes 0.7 s; whoever is still out never returns
	}
	time.Sleep(20 * time.Millisecond)
	omu.Lock()
	out := outstanding
	omu.Unlock()
	table := -1
	tc := make(chan int, 1)
	go func() { tc <- cl.VerifTransactionCount() }()
	select {
	case table = <-tc:
	case <-time.After(2 * time.Second):
	}
	log.add(map[string]any{"e": "End", "outstanding": out, "table": table})
	// last phase (ClientTxn!RtxSlow / CloseBlocked / RtxWriteDone): six transactions nobody answers; the second
	// transmission of the first one stays inside the socket write -- the timer callback holds the table lock --
	// while Client.Close is called; the write then fails.  Close has to wait for the callback: nobody is told
	// "closed" before the write has returned, everybody returns exactly once, Close returns.
	parked := make(chan struct{})
	release := make(chan struct{})
	var once sync.Once
	gate.Store(&rtxGate{t: "z0", parked: func() { once.Do(func() { close(parked) }) }, release: release})
	var wg2 sync.WaitGroup
	out2 := 0
	for i := 0; i < 6; i++ {
		tn := fmt.Sprintf("z%d", i)
		h := sha256.Sum256([]byte(fmt.Sprintf("rt/%d/%s", seed, tn)))
		var id [stun.TransactionIDSize]byte
		copy(id[:], h[:])
		nmu.Lock()
		name[id] = tn
		nmu.Unlock()
		wg2.Add(1)
		omu.Lock()
		out2++
		omu.Unlock()
		go func() {
			defer wg2.Done()
			msg := stun.MustBuild(txidSetter(id), stun.BindingRequest)
			log.add(map[string]any{"e": "Start", "t": tn})
			_, err := cl.PerformTransaction(msg, saddr, false)
			r := "err:" + fmt.Sprint(err)
			switch {
			case err == nil:
				r = "otherresp"
			case strings.Contains(err.Error(), "closed"):
				r = "closed"
			case strings.Contains(err.Error(), "injected write") || strings.Contains(err.Error(), "retransmit"):
				r = "writeerr"
			case strings.Contains(err.Error(), "retransmissions failed"):
				r = "timeout"
			}
			log.add(map[string]any{"e": "Ret", "t": tn, "res": r})
			omu.Lock()
			out2--
			omu.Unlock()
		}()
	}
	closed := make(chan struct{})
	select {
	case <-parked:
		log.add(map[string]any{"e": "CloseCall"})
		go func() {
			cl.Close()
			log.add(map[string]any{"e": "CloseRet"})
			close(closed)
		}()
		time.Sleep(time.Duration(10+rnd(20)) * time.Millisecond)
		close(release)
	case <-time.After(3 * time.Second): // no retransmission ever came (a finding of the phase before): close all the same
		log.add(map[string]any{"e": "Note", "what": "the gated retransmission never happened"})
		close(release)
		go func() {
			cl.Close()
			close(closed)
		}()
	}
	done2 := make(chan struct{})
	go func() {
		wg2.Wait()
		close(done2)
	}()
	select {
	case <-done2:
	case <-time.After(5 * time.Second):
	}
	select {
	case <-closed:
	case <-time.After(2 * time.Second):
	}
	omu.Lock()
	log.add(map[string]any{"e": "End2", "outstanding": out2})
	omu.Unlock()
	gate.Store(nil)
	_ = cconn.Close()
	_ = server.Close()
}

// rtxGate parks the second transmission of transaction t inside the socket write until release is closed; the write
// then fails.
type rtxGate struct {
	t       string
	parked  func()
	release chan struct{}
}

// TestClientTxnRT records VERIF_NTRACES executions into VERIF_TRACE_OUT.
func TestClientTxnRT(t *testing.T) {
	out := os.Getenv("VERIF_TRACE_OUT")
	if out == "" {
		t.Skip("VERIF_TRACE_OUT not set")
	}
	seed := envInt("VERIF_SEED", 1)
	n := int(envInt("VERIF_NTRACES", 8))
	log := &traceLog{}
	par := 4 // executions are independent clients: a few at a time (each is mostly asleep)
	sem := make(chan struct{}, par)
	logs := make([]*traceLog, n)
	var wg sync.WaitGroup
	for i := 0; i < n; i++ {
		i := i
		logs[i] = &traceLog{}
		wg.Add(1)
		sem <- struct{}{}
		go func() {
			defer wg.Done()
			defer func() { <-sem }()
			runClientTxnRT(t, seed*1000+int64(i), logs[i])
		}()
	}
	wg.Wait()
	for _, l := range logs {
		log.lines = append(log.lines, l.lines...)
	}
	if err := os.WriteFile(out, []byte(strings.Join(log.lines, "\n")+"\n"), 0o644); err != nil {
		t.Fatal(err)
	}
	t.Logf("recorded %d executions, %d events", n, len(log.lines))
}
