package verifx

import (
	"errors"
	"io"
	"net"
	"os"
	"sync"
	"time"
)

// MemStream is one end of an in-memory TCP-like connection: an unbounded buffered byte pipe in
// each direction (net.Pipe is unbuffered and would deadlock where TCP buffers), with close,
// deadlines and error injection.
type MemStream struct {
	local, remote *net.TCPAddr
	in            *byteQueue // what this end reads
	out           *byteQueue // what this end writes (the peer's in)
	closeOnce     sync.Once
	n             *MemNet
	// Closed is set when Close was called on this end.
	closedMu sync.Mutex
	closed   bool
	Closes   int
}

type byteQueue struct {
	mu       sync.Mutex
	buf      []byte
	eof      bool // writer closed
	rclosed  bool // reader closed (writes fail)
	wake     chan struct{}
	deadline time.Time
	limit    int           // 0 = unbounded; otherwise a writer waits while limit bytes are buffered (flow control)
	space    chan struct{} // signalled when a reader took bytes
}

func newByteQueue() *byteQueue {
	return &byteQueue{wake: make(chan struct{}, 1), space: make(chan struct{}, 1)}
}

// SetLimit bounds (or, with 0, unbounds) the bytes buffered towards this end's reader.
func (s *MemStream) SetLimit(n int) {
	s.in.mu.Lock()
	s.in.limit = n
	s.in.mu.Unlock()
	select {
	case s.in.space <- struct{}{}:
	default:
	}
}

func (q *byteQueue) signal() {
	select {
	case q.wake <- struct{}{}:
	default:
	}
}

func (q *byteQueue) write(p []byte) (int, error) {
	done := 0
	for {
		q.mu.Lock()
		if q.rclosed || q.eof {
			q.mu.Unlock()

			return done, io.ErrClosedPipe
		}
		room := len(p) - done
		if q.limit > 0 {
			room = min(room, max(0, q.limit-len(q.buf)))
		}
		// like a TCP socket: what fits is taken (copied) now, the rest of p is read when there is room again
		q.buf = append(q.buf, p[done:done+room]...)
		done += room
		if room > 0 {
			q.signal()
		}
		q.mu.Unlock()
		if done == len(p) {
			return done, nil
		}
		<-q.space
	}
}

func (q *byteQueue) read(p []byte, selfClosed func() bool) (int, error) {
	for {
		q.mu.Lock()
		if selfClosed() {
			q.mu.Unlock()

			return 0, net.ErrClosed
		}
		if len(q.buf) > 0 {
			n := copy(p, q.buf)
			q.buf = q.buf[n:]
			if len(q.buf) > 0 {
				q.signal()
			}
			q.mu.Unlock()
			select {
			case q.space <- struct{}{}:
			default:
			}

			return n, nil
		}
		if q.eof {
			q.mu.Unlock()

			return 0, io.EOF
		}
		dl := q.deadline
		q.mu.Unlock()
		if !dl.IsZero() {
			d := time.Until(dl)
			if d <= 0 {
				return 0, os.ErrDeadlineExceeded
			}
			t := time.NewTimer(d)
			select {
			case <-q.wake:
				t.Stop()
			case <-t.C:
			}

			continue
		}
		<-q.wake
	}
}

// Read implements net.Conn.
func (s *MemStream) Read(p []byte) (int, error) {
	return s.in.read(p, s.isClosed)
}

// Write implements net.Conn.
func (s *MemStream) Write(p []byte) (int, error) {
	if s.isClosed() {
		return 0, net.ErrClosed
	}

	return s.out.write(p)
}

func (s *MemStream) isClosed() bool {
	s.closedMu.Lock()
	defer s.closedMu.Unlock()

	return s.closed
}

// Close implements net.Conn: the peer reads EOF after draining, its writes fail.
func (s *MemStream) Close() error {
	s.closedMu.Lock()
	s.Closes++
	already := s.closed
	s.closed = true
	s.closedMu.Unlock()
	if already {
		return net.ErrClosed
	}
	s.out.mu.Lock()
	s.out.eof = true
	s.out.signal()
	s.out.mu.Unlock()
	s.in.mu.Lock()
	s.in.rclosed = true
	s.in.signal()
	s.in.mu.Unlock()
	for _, q := range []*byteQueue{s.in, s.out} {
		select {
		case q.space <- struct{}{}:
		default:
		}
	}
	if s.n != nil {
		s.n.streamClosed(s)
	}

	return nil
}

// IsClosed reports whether this end was closed locally.
func (s *MemStream) IsClosed() bool { return s.isClosed() }

// PeerClosed reports whether the other end has closed (EOF pending or delivered).
func (s *MemStream) PeerClosed() bool {
	s.in.mu.Lock()
	defer s.in.mu.Unlock()

	return s.in.eof
}

// Buffered returns and removes everything readable right now, without blocking.
func (s *MemStream) Buffered() []byte {
	s.in.mu.Lock()
	defer s.in.mu.Unlock()
	b := s.in.buf
	s.in.buf = nil
	select {
	case s.in.space <- struct{}{}:
	default:
	}

	return b
}

// LocalAddr implements net.Conn.
func (s *MemStream) LocalAddr() net.Addr { return s.local }

// RemoteAddr implements net.Conn.
func (s *MemStream) RemoteAddr() net.Addr { return s.remote }

// SetDeadline implements net.Conn.
func (s *MemStream) SetDeadline(t time.Time) error { return s.SetReadDeadline(t) }

// SetReadDeadline implements net.Conn.
func (s *MemStream) SetReadDeadline(t time.Time) error {
	if s.isClosed() {
		return net.ErrClosed
	}
	s.in.mu.Lock()
	s.in.deadline = t
	s.in.signal()
	s.in.mu.Unlock()

	return nil
}

// SetWriteDeadline implements net.Conn.
func (s *MemStream) SetWriteDeadline(time.Time) error { return nil }

// MemListener is an in-memory net.Listener.
type MemListener struct {
	n       *MemNet
	addr    *net.TCPAddr
	ch      chan *MemStream
	closed  chan struct{}
	once    sync.Once
	Closes  int
	aliases []string
}

func tkey(a *net.TCPAddr) string { return "tcp/" + key(&net.UDPAddr{IP: a.IP, Port: a.Port}) }

// ListenTCP binds a stream listener.  Several listeners may not share an address.
func (n *MemNet) ListenTCP(addr *net.TCPAddr) (*MemListener, error) {
	n.mu.Lock()
	defer n.mu.Unlock()
	if n.listeners == nil {
		n.listeners = map[string]*MemListener{}
	}
	if _, ok := n.listeners[tkey(addr)]; ok {
		return nil, errAddrInUse
	}
	l := &MemListener{n: n, addr: addr, ch: make(chan *MemStream, 256), closed: make(chan struct{})}
	n.listeners[tkey(addr)] = l
	n.Opened[tkey(addr)]++

	return l, nil
}

// Accept implements net.Listener.
func (l *MemListener) Accept() (net.Conn, error) {
	select {
	case c := <-l.ch:
		return c, nil
	case <-l.closed:
		return nil, net.ErrClosed
	}
}

// Close implements net.Listener.
func (l *MemListener) Close() error {
	l.n.mu.Lock()
	l.Closes++
	l.n.Closed[tkey(l.addr)]++
	l.n.mu.Unlock()
	already := true
	l.once.Do(func() {
		already = false
		close(l.closed)
		l.n.mu.Lock()
		if l.n.listeners[tkey(l.addr)] == l {
			delete(l.n.listeners, tkey(l.addr))
		}
		for _, k := range l.aliases {
			if l.n.listeners[k] == l {
				delete(l.n.listeners, k)
			}
		}
		l.n.mu.Unlock()
	})
	if already {
		return net.ErrClosed
	}

	return nil
}

// AliasTCP makes l answer at addr as well (a listener bound to the wildcard address is reached at every local IP; the
// accepted connection's local address is the one that was dialled).
func (n *MemNet) AliasTCP(l *MemListener, addr *net.TCPAddr) {
	n.mu.Lock()
	defer n.mu.Unlock()
	n.listeners[tkey(addr)] = l
	l.aliases = append(l.aliases, tkey(addr))
}

// Addr implements net.Listener.
func (l *MemListener) Addr() net.Addr { return l.addr }

var errConnRefused = errors.New("memnet: connection refused")

// DialTCP connects local -> remote; fails when nobody listens at remote.
func (n *MemNet) DialTCP(local, remote *net.TCPAddr) (*MemStream, error) {
	n.mu.Lock()
	l := n.listeners[tkey(remote)]
	n.mu.Unlock()
	if l == nil {
		return nil, errConnRefused
	}
	a2b, b2a := newByteQueue(), newByteQueue()
	a := &MemStream{local: local, remote: remote, in: b2a, out: a2b, n: n}
	b := &MemStream{local: remote, remote: local, in: a2b, out: b2a, n: n}
	n.mu.Lock()
	n.streams = append(n.streams, a, b)
	n.mu.Unlock()
	select {
	case l.ch <- b:
	case <-l.closed:
		return nil, errConnRefused
	}

	return a, nil
}

func (n *MemNet) streamClosed(*MemStream) {}

// OpenStreams counts stream ends that were created and not closed locally.
func (n *MemNet) OpenStreams() int {
	n.mu.Lock()
	defer n.mu.Unlock()
	c := 0
	for _, s := range n.streams {
		if !s.isClosed() {
			c++
		}
	}

	return c
}
