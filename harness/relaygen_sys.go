package verifx

import (
	"fmt"
	"io"
	"net"
	"os"
	"path/filepath"
	"strconv"
	"sync"
	"syscall"

	"github.com/pion/randutil"
	"github.com/pion/transport/v4/stdnet"
	turn "github.com/pion/turn/v5"
)

// relaygenSys binds spec/RelayGen.tla to the three bundled relay address generators running on
// the kernel's real loopback sockets (so that socket options the generators set, e.g.
// SO_REUSEPORT, have their real effect).
type relaygenSys struct {
	kind       string
	fam        int
	gen        turn.RelayAddressGenerator
	rnd        *scriptRand
	min, max   int
	open       map[string]io.Closer // "udp/61100" -> socket
	advOf      map[string]net.Addr  // "tcp/61100" -> the advertised address the generator returned for it
	relayIP    net.IP
	addr       string
	lastResult Obs
}

// scriptRand answers Intn(n) by the class scripted for the current draw, whatever n the
// generator asks for.
type scriptRand struct {
	randutil.MathRandomGenerator
	mu     sync.Mutex
	draws  []string
	calls  int
	ns     []int
	hitOff func(n int) int
}

func (r *scriptRand) Intn(n int) int {
	r.mu.Lock()
	defer r.mu.Unlock()
	cl := "lo"
	if r.calls < len(r.draws) {
		cl = r.draws[r.calls]
	}
	r.calls++
	r.ns = append(r.ns, n)
	switch cl {
	case "hi":
		return n - 1
	case "mid":
		return n / 2
	case "hit":
		return r.hitOff(n)
	}

	return 0
}

var relaygenMu sync.Mutex // the port range on the loopback interface is a process-wide resource ...

// ... and a machine-wide one: another check that walks this family at the same time (or anything else that sits on one
// of the ports) would be taken for the generator's doing.  One file lock for the whole walk, and the range is probed
// before the first step.
var (
	relaygenLock    *os.File
	relaygenProbe   sync.Once
	errRelaygenBusy error
)

func relaygenMachineLock(min, max int) error {
	relaygenProbe.Do(func() {
		f, err := os.OpenFile(filepath.Join(os.TempDir(), "verif-relaygen.lock"), os.O_CREATE|os.O_RDWR, 0o666)
		if err != nil {
			errRelaygenBusy = err

			return
		}
		if err := syscall.Flock(int(f.Fd()), syscall.LOCK_EX); err != nil {
			errRelaygenBusy = err

			return
		}
		relaygenLock = f // held until the process ends
		for p := min; p <= max && max-min < 64; p++ {
			for _, nw := range []string{"udp4", "udp6"} {
				ip := map[string]string{"udp4": "127.0.0.1", "udp6": "::1"}[nw]
				c, err := net.ListenPacket(nw, net.JoinHostPort(ip, strconv.Itoa(p)))
				if err != nil {
					errRelaygenBusy = fmt.Errorf("port %d of the generator's range is in use on this machine before the walk starts: %w", p, err)

					return
				}
				_ = c.Close()
			}
		}
	})

	return errRelaygenBusy
}

func newRelaygenSys(meta Meta, _ int64, init any) (Sys, error) {
	st, _ := init.(map[string]any)
	s := &relaygenSys{kind: st["kind"].(string), fam: toInt(st["fam"]), open: map[string]io.Closer{}}
	s.min, _ = strconv.Atoi(meta.Extra["MinPort"])
	s.max, _ = strconv.Atoi(meta.Extra["MaxPort"])
	retries, _ := strconv.Atoi(meta.Extra["MaxRetries"])
	// (127.0.0.2: another address of this host, so that a connection can leave from the relayed address: Conn)
	s.addr, s.relayIP = "127.0.0.1", net.IPv4(127, 0, 0, 2)
	if s.fam == 6 {
		s.addr, s.relayIP = "::1", net.ParseIP("2001:db8::7")
	}
	nw, err := stdnet.NewNet()
	if err != nil {
		return nil, err
	}
	s.rnd = &scriptRand{MathRandomGenerator: randutil.NewMathRandomGenerator()}
	switch s.kind {
	case "range":
		s.gen = &turn.RelayAddressGeneratorPortRange{
			RelayAddress: s.relayIP, Address: s.addr, MinPort: uint16(s.min), MaxPort: uint16(s.max), //nolint:gosec
			MaxRetries: retries, Rand: s.rnd, Net: nw,
		}
	case "static":
		s.gen = &turn.RelayAddressGeneratorStatic{RelayAddress: s.relayIP, Address: s.addr, Net: nw}
	case "none":
		s.gen = &turn.RelayAddressGeneratorNone{Address: s.addr, Net: nw}
	default:
		return nil, fmt.Errorf("unknown generator %q", s.kind)
	}
	relaygenMu.Lock()
	if err := relaygenMachineLock(s.min, s.max); err != nil {
		relaygenMu.Unlock()

		return nil, fmt.Errorf("harness: %w", err)
	}

	return s, s.gen.Validate()
}

func (s *relaygenSys) Close() {
	for _, c := range s.open {
		_ = c.Close()
	}
	relaygenMu.Unlock()
}

func (s *relaygenSys) network(proto string) string {
	return proto + strconv.Itoa(s.fam)
}

func (s *relaygenSys) alloc(proto string, req int) Obs {
	var sock io.Closer
	var adv, local net.Addr
	var err error
	conf := turn.AllocateListenerConfig{Network: s.network(proto), RequestedPort: req, UserID: "u", Realm: realm}
	if proto == "udp" {
		var c net.PacketConn
		c, adv, err = s.gen.AllocatePacketConn(conf)
		if err == nil && c == nil {
			return Obs{"k": "alloc", "ok": true, "port": -1, "advport": -1, "adv": "no socket and no error"}
		}
		if err == nil {
			sock, local = c, c.LocalAddr()
		}
	} else {
		var l net.Listener
		l, adv, err = s.gen.AllocateListener(conf)
		if err == nil && l == nil {
			return Obs{"k": "alloc", "ok": true, "port": -1, "advport": -1, "adv": "no listener and no error"}
		}
		if err == nil {
			sock, local = l, l.Addr()
		}
	}
	if err != nil {
		return Obs{"k": "alloc", "ok": false, "port": 0, "err": err.Error()}
	}
	_, lport := ipPort(local)
	aip, aport := ipPort(adv)
	o := Obs{"k": "alloc", "ok": true, "port": lport, "advport": aport, "adv": "other:" + aip.String()}
	lip, _ := ipPort(local)
	switch {
	case s.kind != "none" && aip.Equal(s.relayIP):
		o["adv"] = "relay"
	case s.kind == "none" && aip.Equal(lip):
		o["adv"] = "local"
	}
	k := fmt.Sprintf("%s/%d", proto, lport)
	if _, dup := s.open[k]; dup {
		// the kernel let a second socket bind a port this generator already handed out: report it
		// and undo it (the first holder keeps the port), see Check for the re-alignment
		o["shared"] = true
		_ = sock.Close()

		return o
	}
	s.open[k] = sock
	if s.advOf == nil {
		s.advOf = map[string]net.Addr{}
	}
	s.advOf[k] = adv // (the very value the generator returned: the server keeps it as the allocation's relayed address)

	return o
}

// conn is AllocateConn from the relayed address of the TCP listener at key k toward a listening peer on this host.
func (s *relaygenSys) conn(k string) (Obs, error) {
	adv := s.advOf[k]
	if adv == nil { // a listener the harness bound itself to re-align after a listed finding: no generator behind it
		return Obs{"k": "conn", "skip": true}, nil
	}
	peer, err := net.Listen("tcp4", "127.0.0.1:0")
	if err != nil {
		return nil, fmt.Errorf("harness: %w", err)
	}
	defer peer.Close() //nolint:errcheck
	go func() {
		if c, err := peer.Accept(); err == nil {
			_ = c.Close()
		}
	}()
	before := adv.String()
	c, cerr := s.gen.AllocateConn(turn.AllocateConnConfig{Network: "tcp4", LocalAddr: adv, RemoteAddr: peer.Addr()})
	o := Obs{"k": "conn", "ok": cerr == nil, "err": fmt.Sprint(cerr), "before": before, "after": adv.String()}
	if cerr == nil {
		_, lp := ipPort(c.LocalAddr())
		o["lport"] = lp
		_ = c.Close()
	}
	aip, ap := ipPort(adv)
	o["advport"] = ap
	o["adv"] = "other:" + aip.String()
	switch {
	case s.kind != "none" && aip.Equal(s.relayIP):
		o["adv"] = "relay"
	case s.kind == "none" && aip.Equal(net.ParseIP(s.addr)):
		o["adv"] = "local"
	}

	return o, nil
}

func ipPort(a net.Addr) (net.IP, int) {
	switch t := a.(type) {
	case *net.UDPAddr:
		return t.IP, t.Port
	case *net.TCPAddr:
		return t.IP, t.Port
	}

	return nil, 0
}

func (s *relaygenSys) Do(a map[string]any, _ func()) ([]Obs, error) {
	proto, _ := a["proto"].(string)
	switch a["a"] {
	case "AllocRange":
		s.rnd.draws = nil
		for _, d := range a["draws"].([]any) {
			s.rnd.draws = append(s.rnd.draws, d.(string))
		}
		s.rnd.calls, s.rnd.ns = 0, nil
		s.rnd.hitOff = func(int) int {
			best := -1
			for p := s.min; p <= s.max; p++ {
				if _, ok := s.open[fmt.Sprintf("%s/%d", proto, p)]; ok {
					best = p

					break
				}
			}
			if best < 0 {
				return 0
			}

			return best - s.min
		}

		return []Obs{s.alloc(proto, 0)}, nil
	case "AllocReq":
		return []Obs{s.alloc(proto, toInt(a["port"]))}, nil
	case "AllocAny":
		o := s.alloc(proto, 0)
		if ok, _ := o["ok"].(bool); ok { // remember it under the model's name for "some free port"
			k := fmt.Sprintf("%s/%d", proto, toInt(o["port"]))
			s.open[proto+"/-1"] = s.open[k]
			delete(s.open, k)
			s.advOf[proto+"/-1"] = s.advOf[k]
			o["anyport"] = o["port"]
			o["port"] = -1
		}

		return []Obs{o}, nil
	case "Conn":
		o, err := s.conn(fmt.Sprintf("tcp/%d", toInt(a["port"])))
		if err != nil {
			return nil, err
		}

		return []Obs{o}, nil
	case "Close":
		k := fmt.Sprintf("%s/%d", proto, toInt(a["port"]))
		c, ok := s.open[k]
		if !ok {
			return nil, fmt.Errorf("harness: nothing open at %s", k)
		}
		delete(s.open, k)

		return nil, c.Close()
	}

	return nil, fmt.Errorf("unknown action %v", a["a"])
}

func (s *relaygenSys) Check(e Edge, obs []Obs) []Mismatch {
	var ms []Mismatch
	for _, x := range e.O {
		m, _ := x.(map[string]any)
		if m["k"] == "conn" && len(obs) == 1 {
			o := obs[0]
			desc := fmt.Sprintf("%s generator, %v", s.kind, canon(e.A))
			if sk, _ := o["skip"].(bool); sk {
				continue
			}
			if ok, _ := o["ok"].(bool); !ok {
				ms = append(ms, Mismatch{"relaygen", desc + fmt.Sprintf(": AllocateConn from the relayed address failed: %v", o["err"])})

				continue
			}
			if o["adv"] != m["adv"] || o["before"] != o["after"] {
				ms = append(ms, Mismatch{"relaygen.adv", desc + fmt.Sprintf(": the allocation's advertised relayed address was %v before the connection and is %v after it", o["before"], o["after"])})
			}

			continue
		}
		if m["k"] != "alloc" || len(obs) != 1 {
			continue
		}
		o := obs[0]
		wantOK, _ := m["ok"].(bool)
		gotOK, _ := o["ok"].(bool)
		desc := fmt.Sprintf("%s generator, %v %v (range %d-%d, open %v)", s.kind, e.A["a"], canon(e.A), s.min, s.max, keysOf(s.open))
		if sh, _ := o["shared"].(bool); sh && wantOK && e.A["a"] == "AllocReq" && toInt(o["port"]) != toInt(e.A["port"]) {
			// not the listed finding (a busy port that was asked for or drawn): the generator bound ANOTHER port than the
			// free one this step names, and that one is in use already
			_ = s.realign(e, m)
			ms = append(ms, Mismatch{"relaygen", desc + fmt.Sprintf(": spec port %v (free), generator bound port %v, which was already in use", m["port"], o["port"])})

			continue
		}
		if sh, _ := o["shared"].(bool); sh {
			ms = append(ms, Mismatch{"relaygen.shared", desc + fmt.Sprintf(": handed out port %v although it was already in use", o["port"])})
			// re-align the real world with the spec's target state so that the path can go on:
			// bind what the spec says this step binds
			if wantOK {
				proto, _ := e.A["proto"].(string)
				if sock, err := s.plainBind(proto, toInt(m["port"])); err == nil {
					s.open[fmt.Sprintf("%s/%d", proto, toInt(m["port"]))] = sock
				} else {
					ms = append(ms, Mismatch{"harness", "re-alignment failed: " + err.Error()})
				}
			}

			continue
		}
		if wantOK != gotOK {
			ms = append(ms, Mismatch{"relaygen", desc + fmt.Sprintf(": spec ok=%v port=%v, generator ok=%v port=%v err=%v", wantOK, m["port"], gotOK, o["port"], o["err"])})

			continue
		}
		if !gotOK {
			continue
		}
		if toInt(m["port"]) != toInt(o["port"]) {
			ms = append(ms, Mismatch{"relaygen", desc + fmt.Sprintf(": spec port %v, bound port %v", m["port"], o["port"])})
		}
		if ap, has := o["anyport"]; has {
			o["port"] = ap
		}
		if toInt(o["advport"]) != toInt(o["port"]) {
			ms = append(ms, Mismatch{"relaygen.adv", desc + fmt.Sprintf(": advertised port %v, bound port %v", o["advport"], o["port"])})
		}
		if o["adv"] != m["adv"] {
			ms = append(ms, Mismatch{"relaygen.adv", desc + fmt.Sprintf(": advertised IP class %v, spec %v", o["adv"], m["adv"])})
		}
	}

	return ms
}

// realign binds what the specification says this step binds, so that a path can go on after a divergence.
func (s *relaygenSys) realign(e Edge, m map[string]any) error {
	proto, _ := e.A["proto"].(string)
	sock, err := s.plainBind(proto, toInt(m["port"]))
	if err == nil {
		s.open[fmt.Sprintf("%s/%d", proto, toInt(m["port"]))] = sock
	}

	return err
}

func keysOf(m map[string]io.Closer) []string {
	var ks []string
	for k := range m {
		ks = append(ks, k)
	}

	return ks
}

func (s *relaygenSys) plainBind(proto string, port int) (io.Closer, error) {
	addr := net.JoinHostPort(s.addr, strconv.Itoa(port))
	if proto == "udp" {
		return net.ListenPacket(s.network(proto), addr)
	}

	return net.Listen(s.network(proto), addr)
}
