package verifx

import (
	"fmt"
	"strings"
	"sync"
	"time"

	"github.com/pion/stun/v3"
	"github.com/pion/turn/v5/internal/allocation"
	"github.com/pion/turn/v5/internal/proto"
	"github.com/pion/turn/v5/internal/verifhook"
)

// Engine G: gated schedules.  spec/TurnServerSteps.tla enumerates the interleavings of a handler
// with the timer callbacks at the granularity of the code's scheduling marks; this system forces
// each interleaving on the real server: every process is parked at its marks (verifhook.At calls and
// operator call-outs the harness supplies) and released one step at a time in the order TLC chose.

type gateArrival struct {
	point string
	rel   chan struct{}
}

type sched struct {
	mu     sync.Mutex
	armed  bool
	parked map[string]*gateArrival // process -> where it is parked
}

func procOf(point string) string {
	switch {
	case point == "perm.expire":
		return "TP"
	case point == "chan.expire":
		return "TC"
	case strings.HasPrefix(point, "alloc.") || point == "callout.allocdeleted":
		return "TA"
	}

	return "H"
}

// at is called by the code under test at every mark.
func (s *sched) at(point string) {
	s.mu.Lock()
	if !s.armed {
		s.mu.Unlock()

		return
	}
	a := &gateArrival{point: point, rel: make(chan struct{})}
	s.parked[procOf(point)] = a
	s.mu.Unlock()
	<-a.rel // durably blocked: the virtual clock may advance, other processes may run
}

func (s *sched) where(proc string) string {
	s.mu.Lock()
	defer s.mu.Unlock()
	if a := s.parked[proc]; a != nil {
		return a.point
	}

	return ""
}

func (s *sched) release(proc string) bool {
	s.mu.Lock()
	a := s.parked[proc]
	delete(s.parked, proc)
	s.mu.Unlock()
	if a == nil {
		return false
	}
	close(a.rel)

	return true
}

var markOf = map[string]string{
	"G0": "callout.grant", "G1r": "perm.add.refresh", "G1i": "perm.add.insert", "G2": "callout.permcreated",
	"B0": "chan.add.lookup", "B0a": "chan.get.number", "B0b": "chan.get.addr", "B1": "chan.add.apply", "B2r": "perm.add.refresh", "B2i": "perm.add.insert",
	"B3": "callout.permcreated", "B4": "callout.chancreated",
	"E0:TP": "perm.expire", "E0:TC": "chan.expire", "E0:TA": "alloc.expire", "E1": "alloc.delete.close", "E2": "callout.allocdeleted",
}

func markFor(proc, pc string) string {
	if pc == "E0" {
		return markOf["E0:"+proc]
	}

	return markOf[pc]
}

type stepsSys struct {
	w     *World
	sc    *sched
	al    *allocation.Allocation
	hk    string
	evOff int
	txid  [stun.TransactionIDSize]byte
	wait  func()
}

const stepsT = 1000 // the instant (s) at which the due timers fire and the handler is in flight

func newStepsSys(_ Meta, seed int64, init any) (Sys, error) {
	st, _ := init.(map[string]any)
	meta := Meta{
		DefaultLife: 3000, PermTO: 100, ChanTO: 300, MaxLife: 3600, Fam: map[string]int{"A": 4}, ListenFam: map[string]int{"c1": 4},
		Clients: []string{"c1"}, Users: []string{"u1"}, PeerPorts: []int{1},
	}
	w, err := NewWorld(meta, seed*4)
	if err != nil {
		return nil, err
	}
	s := &stepsSys{w: w, sc: &sched{parked: map[string]*gateArrival{}}, hk: st["hk"].(string)}
	w.gate = func(point string) {
		if point == "callout.auth" || point == "callout.alloccreated" {
			return // marks of other walks (TurnReaper): not scheduling points of TurnServerSteps.tla
		}
		s.sc.at(point)
	}
	verifhook.Set(func(point string, _ any) { s.sc.at(point) })

	return s, s.setup(st)
}

// setup brings the real server to the initial situation of the behaviour: the entries that exist,
// the timers that are due at T, the handler's request in flight and parked at its first mark.
func (s *stepsSys) setup(st map[string]any) error {
	w := s.w
	wait := func() {} // replaced by the walker's synctest.Wait through Do; setup uses sleeps + polling-free waits
	_ = wait
	due := func(pc string) bool { return st[pc] == "E0" }
	permPresent, chnPresent := st["perm"] == "present", st["chn"] == "present"
	t0 := time.Now()
	at := func(sec int) {
		if d := time.Until(t0.Add(time.Duration(sec) * time.Second)); d > 0 {
			time.Sleep(d)
		}
	}
	s.wait = func() {}
	life := 3000
	if due("pcTA") {
		life = stepsT
	}
	step := func(a map[string]any) error {
		_, err := w.Do(a, syncWait)

		return err
	}
	if err := step(map[string]any{"a": "Allocate", "c": "c1", "u": "u1", "lr": life, "tx": "t1", "rf": 0}); err != nil {
		return err
	}
	peer := []any{"A", 1}
	cp := map[string]any{"a": "CreatePermission", "c": "c1", "u": "u1", "ips": []any{"A"}}
	cb := map[string]any{"a": "ChannelBind", "c": "c1", "u": "u1", "n": 16384, "p": peer}
	lastPerm := -1
	if chnPresent {
		cbAt := stepsT - 150
		if due("pcTC") {
			cbAt = stepsT - 300
		}
		at(cbAt)
		if err := step(cb); err != nil {
			return err
		}
		lastPerm = cbAt
	}
	if permPresent {
		final := stepsT - 40
		if due("pcTP") {
			final = stepsT - 100
		}
		// keep the permission alive until its final refresh
		for lastPerm >= 0 && final-lastPerm > 90 {
			lastPerm += 90
			at(lastPerm)
			if err := step(cp); err != nil {
				return err
			}
		}
		if final > lastPerm {
			at(final)
			if err := step(cp); err != nil {
				return err
			}
		}
	}
	// one second before T: nothing is due yet; the gates are armed by the first step
	at(stepsT - 1)
	s.al = w.Srv.VerifManagers()[0].GetAllocation(&allocation.FiveTuple{
		SrcAddr: w.clientAddr["c1"], DstAddr: w.listen4.addr, Protocol: allocation.UDP,
	})
	if s.al == nil {
		return fmt.Errorf("steps setup: no allocation")
	}
	w.evMu.Lock()
	s.evOff = len(w.Events)
	w.evMu.Unlock()

	return nil
}

// syncWait is synctest.Wait, set by the walker before any system is built.
var syncWait = func() {}

func (s *stepsSys) Close() {
	verifhook.Set(nil)
	s.sc.mu.Lock()
	s.sc.armed = false
	for p, a := range s.sc.parked {
		close(a.rel)
		delete(s.sc.parked, p)
	}
	s.sc.mu.Unlock()
	s.w.Close()
}

func (s *stepsSys) events() []string {
	s.w.evMu.Lock()
	defer s.w.evMu.Unlock()
	var out []string
	for _, e := range s.w.Events[s.evOff:] {
		out = append(out, e.Kind)
	}

	return out
}

func (s *stepsSys) Do(a map[string]any, wait func()) ([]Obs, error) {
	w := s.w
	if !s.sc.armed {
		// first step of the behaviour: arm the gates, put the request in flight, let the due timers fire
		s.sc.mu.Lock()
		s.sc.armed = true
		s.sc.mu.Unlock()
		w.step++
		s.txid = w.freshTxid()
		var raw []byte
		if s.hk == "cp" {
			raw = w.authed("u1", s.txid, stun.MethodCreatePermission, w.wirePeer([]any{"A", 1}))
		} else {
			raw = w.authed("u1", s.txid, stun.MethodChannelBind, proto.ChannelNumber(16384), w.wirePeer([]any{"A", 1}))
		}
		w.curTxid = s.txid
		// the timers due at T fire and park at their entry marks; then the request arrives
		time.Sleep(time.Second + time.Millisecond)
		wait()
		w.sendFromClient("c1", raw)
		wait()
		if s.hk == "cb" && s.sc.where("H") == "callout.grant" {
			s.sc.release("H") // the ChannelBind handler's veto call-out is not a step of the model
			wait()
		}
	}
	proc, _ := a["proc"].(string)
	from, _ := a["from"].(string)
	wantMark := markFor(proc, from)
	if got := s.sc.where(proc); got != wantMark {
		return []Obs{{"k": "parked", "proc": proc, "at": got, "want": wantMark}}, nil
	}
	s.sc.release(proc)
	wait()

	return []Obs{{"k": "parked", "proc": proc, "at": s.sc.where(proc), "want": ""}}, nil
}

func (s *stepsSys) Check(e Edge, obs []Obs) []Mismatch {
	var ms []Mismatch
	proc, _ := e.A["proc"].(string)
	to, _ := e.A["to"].(string)
	o := obs[0]
	if o["want"] != "" {
		return []Mismatch{{"steps.order", fmt.Sprintf("process %s should be parked at %v before this step, it is at %q", proc, o["want"], o["at"])}}
	}
	wantAt := ""
	if to != "done" {
		wantAt = markFor(proc, to)
	}
	if o["at"] != wantAt {
		ms = append(ms, Mismatch{"steps.order", fmt.Sprintf("after the step process %s is at %q, the spec has it at %q (%s)", proc, o["at"], wantAt, to)})
	}
	ts, _ := e.TS.(map[string]any)
	var want []string
	if evs, ok := ts["evs"].([]any); ok {
		for _, x := range evs {
			want = append(want, fmt.Sprint(x))
		}
	}
	got := s.events()
	if strings.Join(got, ",") != strings.Join(want, ",") {
		ms = append(ms, Mismatch{"steps.events", fmt.Sprintf("lifecycle events so far: server %v, spec %v", got, want)})
	}
	// the permission table is never locked across marks: compare it after every step
	gotPerm := len(s.al.ListPermissions()) > 0
	if wantPerm := ts["perm"] == "present"; gotPerm != wantPerm {
		ms = append(ms, Mismatch{"steps.state", fmt.Sprintf("permission present: server %v, spec %v", gotPerm, wantPerm)})
	}
	allDone := ts["pcH"] == "done" && ts["pcTP"] != "E0" && ts["pcTC"] != "E0" && (ts["pcTA"] == "idle" || ts["pcTA"] == "done")
	if allDone && len(ms) == 0 {
		ms = append(ms, s.final(ts, e)...)
		if late, _ := e.A["late"].(bool); late {
			knownHits["D11"]++ // the named deviation LateInstall was exercised (and the code did what the model says)
		}
		if race, _ := e.A["race"].(bool); race {
			knownHits["D14"]++
		}
	}

	return ms
}

// final: every process has finished -- response, tables, locks, and the drain.
func (s *stepsSys) final(ts map[string]any, e Edge) []Mismatch {
	var ms []Mismatch
	w := s.w
	obs, _ := w.collect("", "c1")
	resp := "none"
	for _, o := range obs {
		if o["k"] == "resp" {
			resp = fmt.Sprint(o["cls"])
			if ok, _ := o["txok"].(bool); !ok {
				ms = append(ms, Mismatch{"resp.txid", "response with another transaction id"})
			}
		}
	}
	if resp != fmt.Sprint(ts["resp"]) {
		ms = append(ms, Mismatch{"steps.resp", fmt.Sprintf("the request in flight was answered %q, spec %q", resp, ts["resp"])})
	}
	m := w.Srv.VerifManagers()[0]
	if !m.VerifLocksFree() || !s.al.VerifLocksFree() {
		return append(ms, Mismatch{"locks", "a lock is still held after every process has finished"})
	}
	if gotChn, wantChn := len(s.al.ListChannelBindings()) > 0, ts["chn"] == "present"; gotChn != wantChn {
		ms = append(ms, Mismatch{"steps.state", fmt.Sprintf("channel present: server %v, spec %v", gotChn, wantChn)})
	}
	if mapped, want := m.AllocationCount() == 1, ts["mapped"] == true; mapped != want {
		ms = append(ms, Mismatch{"steps.state", fmt.Sprintf("allocation in the table: server %v, spec %v", mapped, want)})
	}
	if closed, want := s.al.VerifClosed(), ts["closed"] == true; closed != want {
		ms = append(ms, Mismatch{"steps.state", fmt.Sprintf("allocation closed: server %v, spec %v", closed, want)})
	}
	// drain: no gate is armed any more; a timer left behind on a dead allocation shows as a late event
	s.sc.mu.Lock()
	s.sc.armed = false
	s.sc.mu.Unlock()
	late, _ := e.A["late"].(bool)
	n0 := len(s.events())
	time.Sleep(time.Hour)
	syncWait()
	lateEvs := s.events()[n0:]
	if ts["closed"] == true && len(lateEvs) > 0 && !late {
		ms = append(ms, Mismatch{"events.late", fmt.Sprintf("%v arrived after the allocation was closed", lateEvs)})
	}

	return ms
}
