package verifx

import (
	"crypto/sha256"
	"fmt"
	"math/rand"
	"net"
	"os"
	"sort"
	"strings"
	"sync"
	"sync/atomic"
	"testing"
	"time"

	"github.com/pion/stun/v3"
	"github.com/pion/turn/v5/internal/allocation"
	"github.com/pion/turn/v5/internal/proto"
)

// Engine B driver for the relay server in REAL time (spec/TraceServer.tla): six clients -- three on the IPv4
// datagram listener, one on the IPv6 listener, two on the stream listener (whose connections share one
// allocation manager) -- hammer the real server at the same time, each with its own sequential history of
// requests and data on its own 5-tuple.  No virtual clock: goroutines really run in parallel and really wait
// for each other's locks, which is what this driver is after (lock ordering, unsynchronised shared state).
//
// Each client records its own history: every operation with what came back for it (its response by
// transaction id, the datagrams that carried its payload), followed by the projection of its own allocation.
// Allocations are isolated by 5-tuple, so each history must by itself be a behaviour of TurnServer.tla:
// the executions of the six clients are validated one after the other by the same trace specification.
// An operation that must be answered and is not within three seconds is a "Bad" line (the server hangs).

type rtRouter struct {
	mu    sync.Mutex
	byTx  map[[stun.TransactionIDSize]byte]chan Obs
	byPay map[string]chan Obs
	pays  map[string]string // payload bytes -> id of the operation that sent them
	stray []string
}

func (r *rtRouter) expectTx(id [stun.TransactionIDSize]byte) chan Obs {
	ch := make(chan Obs, 4)
	r.mu.Lock()
	r.byTx[id] = ch
	r.mu.Unlock()

	return ch
}

func (r *rtRouter) expectPay(id string, b []byte) chan Obs {
	ch := make(chan Obs, 4)
	r.mu.Lock()
	r.byPay[id] = ch
	r.pays[string(b)] = id
	r.mu.Unlock()

	return ch
}

func (r *rtRouter) payID(b []byte) (string, bool) {
	r.mu.Lock()
	defer r.mu.Unlock()
	id, ok := r.pays[string(b)]

	return id, ok
}

//nolint:gocyclo,cyclop,maintidx
func runServerRT(t *testing.T, seed int64, log *traceLog) {
	t.Helper()
	meta := serverTraceMeta()
	if seed%2 == 1 { // every other execution: the IPv4 datagram listener and its clients are kernel sockets
		meta.Extra = map[string]string{"real": "yes"}
	}
	w, err := NewWorld(meta, seed)
	if err != nil {
		t.Fatal(err)
	}
	defer w.Close()
	if err := w.mintNonce(func() { time.Sleep(20 * time.Millisecond) }); err != nil {
		t.Fatal(err)
	}
	rt := &rtRouter{byTx: map[[stun.TransactionIDSize]byte]chan Obs{}, byPay: map[string]chan Obs{}, pays: map[string]string{}}
	stop := make(chan struct{})
	var pump sync.WaitGroup
	// one pump per endpoint routes what arrives to the operation that waits for it
	relayOwner := sync.Map{} // relay address -> client
	for _, c := range meta.Clients {
		c := c
		pump.Add(1)
		go func() {
			defer pump.Done()
			for {
				select {
				case <-stop:
					return
				default:
				}
				pks := w.drainClient(c)
				if len(pks) == 0 {
					time.Sleep(200 * time.Microsecond)

					continue
				}
				for _, pk := range pks {
					if !proto.IsChannelData(pk.Data) && stun.IsMessage(pk.Data) {
						m := &stun.Message{Raw: pk.Data}
						if m.Decode() == nil && (m.Type.Class == stun.ClassSuccessResponse || m.Type.Class == stun.ClassErrorResponse) {
							o := w.decodeAtClientRT(c, pk, rt)
							rt.mu.Lock()
							ch := rt.byTx[m.TransactionID]
							rt.mu.Unlock()
							if ch != nil {
								ch <- o
							} else {
								rt.mu.Lock()
								rt.stray = append(rt.stray, fmt.Sprintf("%s received a %v response nobody waits for", c, o["m"]))
								rt.mu.Unlock()
							}

							continue
						}
					}
					o := w.decodeAtClientRT(c, pk, rt)
					id, _ := o["pay"].(string)
					rt.mu.Lock()
					ch := rt.byPay[id]
					rt.mu.Unlock()
					if o["k"] == "toclient" && ch != nil {
						ch <- o
					} else {
						rt.mu.Lock()
						rt.stray = append(rt.stray, fmt.Sprintf("%s received %v %v", c, o["k"], o["why"]))
						rt.mu.Unlock()
					}
				}
			}
		}()
	}
	for pname, pc := range w.peers {
		pname, pc := pname, pc
		pump.Add(1)
		go func() {
			defer pump.Done()
			for {
				select {
				case <-stop:
					return
				default:
				}
				pks := pc.Drain()
				if len(pks) == 0 {
					time.Sleep(200 * time.Microsecond)

					continue
				}
				for _, pk := range pks {
					id, ok := rt.payID(pk.Data)
					owner, _ := relayOwner.Load(key(pk.From))
					rt.mu.Lock()
					ch := rt.byPay[id]
					rt.mu.Unlock()
					if ok && ch != nil && owner != nil {
						ch <- Obs{"k": "topeer", "from": owner, "to": []any{w.peerKey[pname].ip, w.peerKey[pname].port}, "pay": id}
					} else {
						rt.mu.Lock()
						rt.stray = append(rt.stray, fmt.Sprintf("peer %s received a datagram from %v that nobody waits for", pname, pk.From))
						rt.mu.Unlock()
					}
				}
			}
		}()
	}

	var wg sync.WaitGroup
	logs := map[string]*traceLog{}
	for ci, c := range meta.Clients {
		c := c
		cl := &traceLog{}
		logs[c] = cl
		rng := rand.New(rand.NewSource(seed*31 + int64(ci))) //nolint:gosec
		wg.Add(1)
		go func() {
			defer wg.Done()
			cl.add(map[string]any{"e": "Reset", "seed": seed, "client": c, "mode": "rt", "sockets": map[bool]string{true: "kernel UDP (v4 listener)", false: "memory"}[w.real4 != nil]})
			bad := func(why string, owners ...string) { cl.add(map[string]any{"e": "Bad", "why": why, "owners": owners}) }
			live, user := false, ""
			perms := map[string]bool{}
			chans := map[int][]any{}
			var relay *net.UDPAddr
			ips := []string{"A", "B", "X"}
			// this client's own peers: port 1 for c1/c3/s1, port 2 for the others -- payloads identify operations anyway
			nops := 120 + rng.Intn(60)
			for i := 0; i < nops; i++ {
				h := sha256.Sum256([]byte(fmt.Sprintf("rt/%d/%s/%d", seed, c, i)))
				var txid [stun.TransactionIDSize]byte
				copy(txid[:], h[:])
				payid := fmt.Sprintf("r%s-%d", c, i)
				peer := []any{ips[rng.Intn(len(ips))], 1 + rng.Intn(2)}
				a := map[string]any{"c": c}
				var raw []byte
				expectResp := true
				var pay []byte
				r := rng.Intn(100)
				if !live {
					r = []int{0, 0, 0, 95}[rng.Intn(4)]
				}
				switch {
				case r < 6 || !live && r < 50:
					u := []string{"u1", "u2"}[rng.Intn(2)]
					if live {
						u = user
					}
					a["a"], a["u"], a["lr"], a["tx"], a["rf"] = "Allocate", u, []int{-1, -1, 900, 0}[rng.Intn(4)], fmt.Sprintf("t%d", i), []int{0, 0, 4, 6}[rng.Intn(4)]
					txid = w.txid(c + "/" + a["tx"].(string) + fmt.Sprint(seed))
					attrs := []stun.Setter{proto.RequestedTransport{Protocol: proto.ProtoUDP}}
					if lr := toInt(a["lr"]); lr >= 0 {
						attrs = append(attrs, w.lifeAttr(lr))
					}
					attrs = append(attrs, famAttr(toInt(a["rf"]))...)
					raw = w.authed(u, txid, stun.MethodAllocate, attrs...)
				case r < 16:
					a["a"], a["u"], a["lr"], a["rf"] = "Refresh", user, []int{-1, -1, -1, 900, 0}[rng.Intn(5)], []int{0, 0, 0, 4, 6}[rng.Intn(5)]
					attrs := []stun.Setter{}
					if lr := toInt(a["lr"]); lr >= 0 {
						attrs = append(attrs, w.lifeAttr(lr))
					}
					attrs = append(attrs, famAttr(toInt(a["rf"]))...)
					raw = w.authed(user, txid, stun.MethodRefresh, attrs...)
				case r < 38:
					seq := []any{ips[rng.Intn(len(ips))]}
					if rng.Intn(3) == 0 {
						seq = append(seq, ips[rng.Intn(len(ips))])
					}
					a["a"], a["u"], a["ips"] = "CreatePermission", user, seq
					attrs := []stun.Setter{}
					for _, ip := range seq {
						attrs = append(attrs, w.wirePeer([]any{ip, meta.PeerPorts[0]}))
					}
					raw = w.authed(user, txid, stun.MethodCreatePermission, attrs...)
				case r < 58:
					a["a"], a["u"], a["n"], a["p"] = "ChannelBind", user, []int{16384, 16385, 16386, 1}[rng.Intn(4)], peer
					raw = w.authed(user, txid, stun.MethodChannelBind, proto.ChannelNumber(toInt(a["n"])), w.wirePeer(peer)) //nolint:gosec
				case r < 72:
					a["a"], a["p"], a["pay"] = "SendInd", peer, payid
					pay = w.payload(payid, -1)
					raw = stun.MustBuild(stun.TransactionID, stun.NewType(stun.MethodSend, stun.ClassIndication), w.wirePeer(peer), proto.Data(pay)).Raw
					expectResp = false
				case r < 82:
					a["a"], a["n"], a["pay"] = "ChanData", []int{16384, 16385, 16386}[rng.Intn(3)], payid
					pay = w.payload(payid, -1)
					cd := proto.ChannelData{Number: proto.ChannelNumber(toInt(a["n"])), Data: pay} //nolint:gosec
					cd.Encode()
					raw = cd.Raw
					expectResp = false
				case r < 94 && relay != nil:
					a["a"], a["p"], a["pay"] = "PeerData", peer, payid
					pay = w.payload(payid, -1)
					expectResp = false
				default:
					a["a"] = "Binding"
					raw = stun.MustBuild(txidSetter(txid), stun.BindingRequest).Raw
				}
				var respCh, payCh chan Obs
				if expectResp {
					respCh = rt.expectTx(txid)
				}
				if pay != nil {
					payCh = rt.expectPay(payid, pay)
				}
				if a["a"] == "PeerData" {
					pc := w.peers[fmt.Sprintf("%s/%d", peer[0], toInt(peer[1]))]
					_, _ = pc.WriteTo(pay, relay)
				} else {
					w.sendFromClient(c, raw)
				}
				obs := []map[string]any{}
				if expectResp {
					select {
					case o := <-respCh:
						life := -1
						if l, ok := o["life"]; ok {
							life = toInt(l)
						}
						if o["cls"] == "ok" && o["m"] == "Allocate" {
							if ra, _ := o["relayaddr"].(*net.UDPAddr); ra != nil {
								relay = ra
								relayOwner.Store(key(ra), c)
							} else {
								bad("Allocate success without XOR-RELAYED-ADDRESS", "C19")
							}
							if o["mapped"] != c {
								bad(fmt.Sprintf("Allocate success of %s reports the mapped address of %v", c, o["mapped"]), "C19", "C04")
							}
						}
						if o["cls"] == "ok" && o["m"] == "Binding" && o["mapped"] != c {
							bad(fmt.Sprintf("Binding success of %s reports the mapped address of %v", c, o["mapped"]), "C19", "C04")
						}
						obs = append(obs, map[string]any{"k": "resp", "to": c, "m": o["m"], "cls": o["cls"], "code": toInt(o["code"]), "life": life})
					case <-time.After(10 * time.Second):
						if w.realClients[c] != nil {
							// a kernel socket may lose a datagram: inconclusive, this history ends here (the hang oracle is
							// the in-memory executions' and the hammer's)
							cl.add(map[string]any{"e": "Note", "what": "no answer over a kernel UDP socket: history ends"})

							return
						}
						bad(fmt.Sprintf("%s: no answer to %v within 10 s: the server hangs", c, a["a"]), "C09", "C18")

						return
					}
				}
				if payCh != nil {
					// data: a permitted datagram arrives within milliseconds; when nothing is due, a short wait
					wait := 15 * time.Millisecond
					due := false
					switch a["a"] {
					case "SendInd":
						due = live && perms[fmt.Sprint(peer[0])]
					case "ChanData":
						_, due = chans[toInt(a["n"])]
						due = due && live
					case "PeerData":
						due = live && perms[fmt.Sprint(peer[0])]
					}
					if due {
						wait = 5 * time.Second
					}
					lost := false
					select {
					case o := <-payCh:
						m := map[string]any{}
						for k, v := range o {
							m[k] = v
						}
						if m["k"] == "toclient" && m["to"] != c {
							bad(fmt.Sprintf("a datagram for the relayed address of %s was delivered to %v", c, m["to"]), "C04", "C02")
						}
						if m["k"] == "topeer" && m["from"] != c {
							bad(fmt.Sprintf("data submitted by %s left from the relayed address of %v", c, m["from"]), "C04", "C01")
						}
						if m["k"] == "toclient" {
							if m["peer"] == nil {
								m["peer"] = []any{"?", 0}
							}
							m = map[string]any{"k": "toclient", "to": m["to"], "via": m["via"], "n": toInt(m["n"]), "peer": m["peer"], "pay": m["pay"]}
						}
						obs = append(obs, m)
					case <-time.After(wait):
						lost = due && w.realClients[c] != nil
					}
					if lost { // (kernel sockets may lose a datagram: inconclusive, this history ends here)
						cl.add(map[string]any{"e": "Note", "what": "a due datagram did not arrive over a kernel UDP socket: history ends"})

						return
					}
				}
				cl.add(map[string]any{"e": "Op", "id": i, "a": a, "obs": obs})
				// this client's own allocation, read from the server's tables
				st := w.projectOne(c)
				live, user = st.Live, st.User
				perms = map[string]bool{}
				ps := []any{}
				for _, ip := range st.Perms {
					perms[ip] = true
					ps = append(ps, ip)
				}
				chans = st.Chans
				cs := []any{}
				ns := make([]int, 0, len(st.Chans))
				for n := range st.Chans {
					ns = append(ns, n)
				}
				sort.Ints(ns)
				for _, n := range ns {
					cs = append(cs, []any{n, st.Chans[n][0], toInt(st.Chans[n][1])})
				}
				if !live {
					relay = nil
				}
				cl.add(map[string]any{"e": "Settle", "alloc": map[string]any{c: map[string]any{"live": st.Live, "user": st.User, "fam": st.Fam}},
					"perm": map[string]any{c: ps}, "chan": map[string]any{c: cs}})
			}
		}()
	}
	wg.Wait()
	time.Sleep(30 * time.Millisecond)
	close(stop)
	pump.Wait()
	hammerWhy := hammer(w, seed)
	if hammerWhy == "" {
		hammerWhy = tcpHammer(w, seed)
	}
	names := append([]string{}, meta.Clients...)
	sort.Strings(names)
	for _, c := range names {
		log.mu.Lock()
		log.lines = append(log.lines, logs[c].lines...)
		log.mu.Unlock()
	}
	if hammerWhy != "" {
		log.add(map[string]any{"e": "Bad", "why": hammerWhy, "owners": []string{"C09", "C18"}})
	}
	rt.mu.Lock()
	for _, s := range rt.stray {
		log.add(map[string]any{"e": "Bad", "why": s, "owners": []string{"C04", "C19", "C05"}})
	}
	rt.mu.Unlock()
}

// hammer: eight more parties on the stream listener send well-formed requests back to back without waiting
// for the answers -- six refresh their allocation, two allocate and release in turn -- so that lookups and
// table changes of one allocation manager overlap all the time.  Every request has exactly one answer; the
// oracle is only that all of them arrive (nothing may wedge the server).  Returns "" or what went wrong.
func hammer(w *World, seed int64) string {
	const parties, burst = 8, 300
	type party struct {
		st   *MemStream
		want int
		got  chan int
	}
	ps := make([]*party, parties)
	for i := range ps {
		st, err := w.Net.DialTCP(&net.TCPAddr{IP: net.IPv4(10, 0, 0, 13).To4(), Port: 41000 + i}, &net.TCPAddr{IP: w.listenAddr["s1"].IP, Port: w.listenAddr["s1"].Port})
		if err != nil {
			return "hammer: " + err.Error()
		}
		defer st.Close() //nolint:errcheck
		ps[i] = &party{st: st, got: make(chan int, 1)}
	}
	id := func(i, k int) (t [stun.TransactionIDSize]byte) {
		h := sha256.Sum256([]byte(fmt.Sprintf("hammer/%d/%d/%d", seed, i, k)))
		copy(t[:], h[:])

		return t
	}
	for i, p := range ps {
		i, p := i, p
		var reqs [][]byte
		alloc := func(k int) []byte {
			return w.authed("u1", id(i, k), stun.MethodAllocate, proto.RequestedTransport{Protocol: proto.ProtoUDP})
		}
		reqs = append(reqs, alloc(0))
		for k := 1; k <= burst; k++ {
			switch {
			case i < 6:
				reqs = append(reqs, w.authed("u1", id(i, k), stun.MethodRefresh))
			case k%2 == 1:
				reqs = append(reqs, w.authed("u1", id(i, k), stun.MethodRefresh, proto.Lifetime{}))
			default:
				reqs = append(reqs, alloc(k))
			}
		}
		p.want = len(reqs)
		go func() { // answers: one STUN message per request
			n, rest := 0, []byte{}
			buf := make([]byte, 65536)
			for n < p.want {
				_ = p.st.SetReadDeadline(time.Now().Add(20 * time.Second))
				k, err := p.st.Read(buf)
				if err != nil {
					break
				}
				rest = append(rest, buf[:k]...)
				for len(rest) >= 20 {
					l := 20 + int(rest[2])<<8 + int(rest[3])
					if len(rest) < l {
						break
					}
					rest = rest[l:]
					n++
				}
			}
			p.got <- n
		}()
		go func() {
			for _, r := range reqs {
				_, _ = p.st.Write(r)
			}
		}()
	}
	for i, p := range ps {
		if n := <-p.got; n != p.want {
			return fmt.Sprintf("hammer: party %d got %d answers to %d pipelined requests (8 parties on the stream listener at once): the server is wedged", i, n, p.want)
		}
	}

	return ""
}

// tcpHammer: four parties on the stream listener hold TCP allocations (RFC 6062) with a permission for one peer; that
// peer keeps dialling each relayed address while its party deletes the allocation (Refresh 0), allocates again and
// installs the permission again, sixty times.  Inbound peer connections (relay accept loop: permission table, then
// the manager's connection table) thereby keep meeting allocation deletions (manager, then the allocation's tables).
// Every request must be answered; returns "" or what went wrong.
func tcpHammer(w *World, seed int64) string {
	const parties, cycles = 4, 60
	var peerIP net.IP
	for _, ip := range w.peerIP {
		if ip.To4() != nil && (peerIP == nil || ip.String() < peerIP.String()) {
			peerIP = ip
		}
	}
	fail := make(chan string, parties)
	var wg sync.WaitGroup
	for i := 0; i < parties; i++ {
		i := i
		st, err := w.Net.DialTCP(&net.TCPAddr{IP: net.IPv4(10, 0, 0, 14).To4(), Port: 42000 + i}, &net.TCPAddr{IP: w.listenAddr["s1"].IP, Port: w.listenAddr["s1"].Port})
		if err != nil {
			return "tcp hammer: " + err.Error()
		}
		defer st.Close() //nolint:errcheck
		var relay atomic.Pointer[net.TCPAddr]
		stop := make(chan struct{})
		go func() { // the peer: dial the current relayed address again and again
			n := 0
			for {
				select {
				case <-stop:
					return
				default:
				}
				if ra := relay.Load(); ra != nil {
					n++
					if c, err := w.Net.DialTCP(&net.TCPAddr{IP: peerIP, Port: 20000 + i*1000 + n%900}, ra); err == nil {
						_ = c.Close()
					}
				}
				time.Sleep(50 * time.Microsecond)
			}
		}()
		wg.Add(1)
		go func() {
			defer wg.Done()
			defer close(stop)
			rest := []byte{}
			buf := make([]byte, 65536)
			k := 0
			// one request, its answer (indications that arrive meanwhile are skipped)
			ask := func(raw []byte, id [stun.TransactionIDSize]byte) *stun.Message {
				_, _ = st.Write(raw)
				deadline := time.Now().Add(20 * time.Second)
				for time.Now().Before(deadline) {
					for len(rest) >= 20 {
						l := 20 + int(rest[2])<<8 + int(rest[3])
						if len(rest) < l {
							break
						}
						m := &stun.Message{Raw: append([]byte{}, rest[:l]...)}
						rest = rest[l:]
						if m.Decode() == nil && m.TransactionID == id {
							return m
						}
					}
					_ = st.SetReadDeadline(time.Now().Add(200 * time.Millisecond))
					if n, err := st.Read(buf); err == nil {
						rest = append(rest, buf[:n]...)
					}
				}

				return nil
			}
			tid := func() (t [stun.TransactionIDSize]byte) {
				k++
				h := sha256.Sum256([]byte(fmt.Sprintf("tcphammer/%d/%d/%d", seed, i, k)))
				copy(t[:], h[:])

				return t
			}
			for c := 0; c < cycles; c++ {
				id := tid()
				m := ask(w.authed("u1", id, stun.MethodAllocate, proto.RequestedTransport{Protocol: proto.ProtoTCP}), id)
				if m == nil {
					fail <- fmt.Sprintf("tcp hammer: party %d got no answer to Allocate (cycle %d): the server is wedged", i, c)

					return
				}
				var ra proto.RelayedAddress
				if ra.GetFrom(m) == nil {
					relay.Store(&net.TCPAddr{IP: ra.IP, Port: ra.Port})
				}
				id = tid()
				if ask(w.authed("u1", id, stun.MethodCreatePermission, proto.PeerAddress{IP: peerIP, Port: 20000}), id) == nil {
					fail <- fmt.Sprintf("tcp hammer: party %d got no answer to CreatePermission (cycle %d): the server is wedged", i, c)

					return
				}
				time.Sleep(time.Duration(200+50*i) * time.Microsecond) // peer connections arrive
				id = tid()
				if ask(w.authed("u1", id, stun.MethodRefresh, proto.Lifetime{}), id) == nil {
					fail <- fmt.Sprintf("tcp hammer: party %d got no answer to Refresh 0 (cycle %d): the server is wedged", i, c)

					return
				}
				relay.Store(nil)
			}
		}()
	}
	wg.Wait()
	select {
	case why := <-fail:
		return why
	default:
		return ""
	}
}

// decodeAtClientRT is decodeAtClient with the payload identified through the router (many operations are in flight).
func (w *World) decodeAtClientRT(c string, pk Pkt, rt *rtRouter) Obs {
	o := w.decodeAtClient(c, pk)
	if o["k"] == "toclient" {
		var data []byte
		if proto.IsChannelData(pk.Data) {
			cd := proto.ChannelData{Raw: pk.Data}
			if cd.Decode() == nil {
				data = cd.Data
			}
		} else {
			m := &stun.Message{Raw: pk.Data}
			var d proto.Data
			if m.Decode() == nil && d.GetFrom(m) == nil {
				data = d
			}
		}
		if id, ok := rt.payID(data); ok && !strings.HasPrefix(fmt.Sprint(o["pay"]), "!framing") {
			o["pay"] = id
		}
	}

	return o
}

// projectOne reads the allocation of one model client from the server's tables (no lock probes: other
// clients are at work).
func (w *World) projectOne(c string) CState {
	cs := CState{Chans: map[int][]any{}}
	mgrs := w.Srv.VerifManagers()
	ca := w.clientAddr[c]
	var al *allocation.Allocation
	switch {
	case w.isStream(c):
		la := w.listen4.addr
		al = mgrs[2].GetAllocation(&allocation.FiveTuple{SrcAddr: &net.TCPAddr{IP: ca.IP, Port: ca.Port},
			DstAddr: &net.TCPAddr{IP: la.IP, Port: la.Port}, Protocol: allocation.UDP})
	case w.listenAddr[c] == w.listen6.addr:
		al = mgrs[1].GetAllocation(&allocation.FiveTuple{SrcAddr: ca, DstAddr: w.listen6.addr, Protocol: allocation.UDP})
	default:
		al = mgrs[0].GetAllocation(&allocation.FiveTuple{SrcAddr: ca, DstAddr: w.listen4.addr, Protocol: allocation.UDP})
	}
	if al == nil {
		return cs
	}
	cs.Live, cs.User, cs.Fam = true, al.VerifUserID(), 4
	if al.AddressFamily() == proto.RequestedFamilyIPv6 {
		cs.Fam = 6
	}
	for _, p := range al.ListPermissions() {
		if ua, _ := p.Addr.(*net.UDPAddr); ua != nil {
			cs.Perms = append(cs.Perms, w.ipName(ua.IP))
		}
	}
	sort.Strings(cs.Perms)
	for _, cb := range al.ListChannelBindings() {
		cs.Chans[int(cb.Number)] = w.peerName(cb.Peer)
	}

	return cs
}

// TestServerRT records VERIF_NTRACES executions into VERIF_TRACE_OUT.
func TestServerRT(t *testing.T) {
	out := os.Getenv("VERIF_TRACE_OUT")
	if out == "" {
		t.Skip("VERIF_TRACE_OUT not set")
	}
	seed := envInt("VERIF_SEED", 1)
	n := int(envInt("VERIF_NTRACES", 4))
	log := &traceLog{}
	for i := 0; i < n; i++ {
		runServerRT(t, seed*1000+int64(i), log)
	}
	if err := os.WriteFile(out, []byte(strings.Join(log.lines, "\n")+"\n"), 0o644); err != nil {
		t.Fatal(err)
	}
	t.Logf("recorded %d executions, %d events", n, len(log.lines))
}
