#!/bin/sh
# Builds the harness once (warms the Go build cache) from files on disk only.
set -e
export GOFLAGS=-mod=mod GOPROXY=off GOSUMDB=off GOTOOLCHAIN=local
cd "$(dirname "$0")/harness"
cp /repo/go.sum go.sum
go1.26 test -tags verif -c -o /dev/null .
echo "setup ok"
