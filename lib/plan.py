"""Per-property verification plans: which TLC configurations decide the property on the
specification and which generated behaviours are replayed on the real code."""
import json, os

CRASH_OWNERS = {"C09", "C15", "C18"}
# a driver / walk of these families that is ended by the watchdog (goroutines stuck on a lock) or leaves the bubble
# deadlocked: the outcome the family's own property prescribes has not materialised (C12 "never hangs", C13 "never
# blocks the inbound path", C14 "data keeps flowing", C05 "arrives", C16 "keeps serving")
FAMILY_HANG_OWNERS = {"clienttxn": "C12", "keepalive": "C14", "clientconn": "C13", "relaytcp": "C16", "tcp": "C16", "relay": "C05", "ledger": "C15"}

CORE = "MC_core.tla"

# model-checking configurations: name -> (quick MaxDepth, thorough MaxDepth)
MC_DEPTH = {
    "MC_relay": (5, 7), "MC_relayB": (8, 10), "MC_time": (8, 10), "MC_iso": (5, 6), "MC_v6": (6, 7), "MC_mtu": (4, 5), "MC_resv": (5, 6), "MC_stream": (6, 7), "MC_stream2": (6, 7), "MC_stream3": (6, 7), "MC_veto": (8, 10), "MC_longlife": (6, 7), "MC_quota": (6, 7),
}
# generation slices: name -> (quick MaxDepth, thorough MaxDepth)
GEN_DEPTH = {
    "GEN_relayA": (6, 7), "GEN_relayB": (6, 7), "GEN_relayD": (4, 5), "GEN_time": (7, 8), "GEN_users": (5, 6),
    "GEN_iso": (4, 5), "GEN_v6": (4, 5), "GEN_v6strict": (5, 6), "GEN_mtu": (4, 4), "GEN_mtu1200": (4, 4), "GEN_resv": (4, 5), "GEN_recycle": (7, 8), "GEN_chan3": (8, 9), "GEN_stream": (5, 6), "GEN_stream2": (5, 6), "GEN_users2": (4, 5), "GEN_stream3": (5, 6), "GEN_veto": (6, 7), "GEN_longlife": (4, 5), "GEN_quota": (5, 6),
}


MODULE_OF = {"MC_auth": "MC_auth.tla", "MC_noauth": "MC_auth.tla", "GEN_auth": "MC_auth.tla", "GEN_noauth": "MC_auth.tla", "GEN_anon": "MC_auth.tla",
             "MC_nonce": "Nonce.tla", "GEN_nonce": "Nonce.tla"}
for _n in ("tcp", "tcpA", "tcpB", "tcpC"):
    MODULE_OF["MC_" + _n] = MODULE_OF["GEN_" + _n] = "TurnTCP.tla"
MC_DEPTH["MC_tcp"] = (6, 7)
GEN_DEPTH["GEN_tcpA"] = (6, 7)
GEN_DEPTH["GEN_tcpB"] = (5, 6)
GEN_DEPTH["GEN_tcpC"] = (7, 8)
for _n in ("clienttxn", "clienttxnLive", "clienttxnR", "clienttxnA", "clienttxnB", "clienttxnLA", "clienttxnLB", "clienttxnLC", "clienttxnLD", "clienttxnLE"):
    MODULE_OF["MC_" + _n] = MODULE_OF["GEN_" + _n] = "ClientTxn.tla"
    MC_DEPTH["MC_" + _n] = None
    GEN_DEPTH["GEN_" + _n] = None
MC_DEPTH["MC_clienttxn"] = (9, 11)
MC_DEPTH["MC_clienttxnR"] = (9, 11)
GEN_DEPTH["GEN_clienttxnR"] = (7, 8)
GEN_DEPTH["GEN_clienttxnA"] = (7, 8)
GEN_DEPTH["GEN_clienttxnB"] = (6, 7)
for _n in ("disp_serverudp", "disp_serverstream", "disp_client"):
    MODULE_OF["MC_" + _n] = MODULE_OF["GEN_" + _n] = "Dispatch.tla"
    MC_DEPTH["MC_" + _n] = None
    GEN_DEPTH["GEN_" + _n] = None
MODULE_OF["MC_reaper"] = MODULE_OF["GEN_reaper"] = MODULE_OF["GEN_reaperS"] = "TurnReaper.tla"
MC_DEPTH["MC_reaper"] = (10, 12)
GEN_DEPTH["GEN_reaper"] = (7, 8)
GEN_DEPTH["GEN_reaperS"] = (7, 8)
for _n in ("steps",):
    MODULE_OF["MC_" + _n] = MODULE_OF["GEN_" + _n] = "TurnServerSteps.tla"
    MC_DEPTH["MC_" + _n] = None
    GEN_DEPTH["GEN_" + _n] = None
for _n in ("life", "lifeA", "lifeB"):
    MODULE_OF["MC_" + _n] = MODULE_OF["GEN_" + _n] = "TurnLife.tla"
MC_DEPTH["MC_life"] = (6, 7)
GEN_DEPTH["GEN_lifeA"] = (6, 7)
GEN_DEPTH["GEN_lifeB"] = (5, 6)
for _n in ("framer", "framerBig", "bindreply", "codec"):
    MODULE_OF["MC_" + _n] = MODULE_OF["GEN_" + _n] = "Codec.tla" if _n == "codec" else "Framer.tla"
    MC_DEPTH["MC_" + _n] = None
    GEN_DEPTH["GEN_" + _n] = None
for _n in ("ltcred", "relaygenA", "relaygenTop", "relaygenOne", "relaygenWide"):
    MODULE_OF["MC_" + _n] = MODULE_OF["GEN_" + _n] = "LtCred.tla" if _n == "ltcred" else "RelayGen.tla"
    MC_DEPTH["MC_" + _n] = None
    GEN_DEPTH["GEN_" + _n] = None
MC_DEPTH.update({"MC_auth": (5, 7), "MC_noauth": (3, 4), "MC_nonce": None})
GEN_DEPTH.update({"GEN_anon": (4, 5), "GEN_auth": (4, 5), "GEN_noauth": (2, 3), "GEN_nonce": None})


NO_SIM = {"GEN_clienttxnR", "GEN_bindreply", "GEN_framerBig", "GEN_disp_serverstream", "GEN_steps", "GEN_clienttxnLA", "GEN_clienttxnLB", "GEN_clienttxnLC", "GEN_clienttxnLD", "GEN_clienttxnLE", "GEN_clienttxnB", "GEN_codec", "GEN_nonce", "GEN_noauth", "GEN_mtu", "GEN_mtu1200", "GEN_ltcred", "GEN_relaygenOne", "GEN_relaygenTop"}


def depth(table, name, t):
    return {"MaxDepth": table[name][t]} if table.get(name) else None


def core_run(mcs, gens):
    def run(ctx):
        t = 0 if ctx.tier == "quick" else 1
        for mc in mcs:
            ctx.model_check(MODULE_OF.get(mc, CORE), mc + ".cfg", depth(MC_DEPTH, mc, t))
        nvar = 1 if ctx.tier == "quick" else 4
        base_seed = ctx.seed
        for g in gens:
            edges = ctx.generate(MODULE_OF.get(g, CORE), g + ".cfg", depth(GEN_DEPTH, g, t))
            for k in range(nvar):
                ctx.seed = base_seed + k
                r = ctx.walk(g[4:] + ("" if nvar == 1 else "-v%d" % k), edges)
                if r is None or ctx.violations:
                    break
            ctx.seed = base_seed
            os.remove(edges)
            if ctx.violations:
                break
            if g in NO_SIM:
                continue
            # long random behaviours of the same configuration straight from `tlc -simulate`
            # (histories that edge coverage, which reaches each state by a shortest prefix, never has)
            num, dep = (250, 40) if ctx.tier == "quick" else (4000, 60)
            traces = ctx.generate(MODULE_OF.get(g, CORE), g + ".cfg", None, simulate=(num, dep))
            ctx.walk(g[4:] + "-sim", traces, mode="traces")
            os.remove(traces)
            if ctx.violations:
                break
    return run


BASE_ASSUME = [
    "TLC results hold for the stated constants (<= 3 clients, 2 users, <= 3 peer IPs x 2 ports, <= 3 channel numbers, depth bounds in tlc_runs)",
    "the walk observes the server through an in-memory datagram network and the verif-tagged table accessors; "
    "virtual time is testing/synctest (go1.26), 1 model tick = 1 s",
    "every replayed step compares all datagrams received by all endpoints and the projected tables of all clients with the spec",
    "where the walks list family server / server-rt (engine trace-validation): executions of the real server recorded by drivers that are not derived "
    "from the spec -- rounds of up to four concurrent operations of different 5-tuples (TLC infers the linearisation), and six clients working at the same "
    "time in real time, each with its own history (kernel UDP sockets for the IPv4 listener in every other execution), followed by two pipelined hammer phases -- "
    "are validated against TurnServer.tla (TraceServer.tla); a rejected execution counts for this property only when the class of observation that has to be "
    "ignored to make it acceptable is one this property pins; the sample is seeded (VERIF_SEED), the real-time part is not reproducible (order-only oracles)",
]

# ---- Engine B for the relay server (TraceServer.tla): concurrent rounds, linearised by TLC -------------
SERVER_RELAX = {
    "topeer": {"C01", "C05", "C07"}, "toclient": {"C02", "C05", "C07"},
    "resp:Allocate": {"C19", "C06"}, "resp:Refresh": {"C06"}, "resp:CreatePermission": {"C07", "C01"},
    "resp:ChannelBind": {"C08", "C07", "C01"}, "resp:Binding": {"C19"},
    "state:alloc": {"C06", "C19", "C04"}, "state:perm": {"C07", "C01", "C02", "C06"}, "state:chan": {"C08", "C07", "C01", "C02", "C06"},
}


def server_attribute(ctx, exlines, badrel, module, cfg):
    """Which class of observation, left out, makes the rejected execution acceptable (at least past the
    rejected line)?  Those classes name what was wrong, and thereby the properties it contradicts."""
    import json as _json, os as _os, re as _re
    line = _json.loads(exlines[badrel])
    if line.get("e") == "Bad":       # a local check of the driver: it names its owners itself
        return {"bad"}, set(line.get("owners", []))
    if len([x for x in ctx.abandoned_traces if x.get("family", "").startswith("server")]) >= 4:
        return {"(not attributed: four executions of this run were attributed already)"}, set()
    # the execution up to and including the rejected Settle line; observations are ignored from that line on only
    cur = _os.path.join(ctx.scratch, "attr.ndjson")
    open(cur, "w").write("\n".join(exlines[:badrel + 1]) + "\n")

    def accepted(relax):
        # one linearisation of the rejected round that passes its Settle line is enough: depth-first, stop there
        rset = "{" + ", ".join('"%s"' % r for r in sorted(relax)) + "}"
        rc, txt, rec = ctx.tlc(module, "TraceServerAttr.cfg", {"TraceFile": '"%s"' % cur, "Relax": rset, "RelaxFrom": badrel + 1},
                               workers=1, timeout=60, env={"JAVA_TOOL_OPTIONS": "-Dtlc2.tool.queue.IStateQueue=StateDeque"})
        return "Invariant NotDone is violated" in txt

    need = set(SERVER_RELAX)
    if not accepted(need):
        return {"?"}, set()          # not explained by observations alone
    for r in sorted(SERVER_RELAX):   # greedy minimisation: what can be put back without a rejection was not wrong
        if accepted(need - {r}):
            need.discard(r)
    owners = None
    for r in need:
        owners = set(SERVER_RELAX[r]) if owners is None else owners & SERVER_RELAX[r]
    if not owners:
        owners = set().union(*[SERVER_RELAX[r] for r in need]) if need else set()
    return need, owners


def server_trace(ctx):
    n = 40 if ctx.tier == "quick" else 600
    ctx.trace_validate("server", "TestServerTrace", "TraceServer.tla", "TraceServer.cfg", n, attribute=server_attribute)
    if not ctx.violations:
        server_rt(ctx)


def server_rt(ctx):
    """real time, six clients at once, each with its own history (validated one after the other)"""
    n = 4 if ctx.tier == "quick" else 60
    ctx.trace_validate("server-rt", "TestServerRT", "TraceServer.tla", "TraceServer.cfg", n, attribute=server_attribute)


def with_server_trace(run):
    def f(ctx):
        if os.environ.get("VERIF_ONLY") != "servertrace":    # (self-test of the machinery: tools/matrix.sh)
            run(ctx)
        if not ctx.violations:
            server_trace(ctx)
    return f


def c12_run(ctx):
    if os.environ.get("VERIF_ONLY") != "rt":
        core_run(["MC_clienttxn", "MC_clienttxnLive", "MC_clienttxnR"],
                             ["GEN_clienttxnA", "GEN_clienttxnB", "GEN_clienttxnR", "GEN_clienttxnLA", "GEN_clienttxnLB", "GEN_clienttxnLC", "GEN_clienttxnLD", "GEN_clienttxnLE"])(ctx)
    if not ctx.violations:   # real time, real concurrency: schedules the virtual clock cannot produce (mutex waits)
        n = 24 if ctx.tier == "quick" else 240
        ctx.trace_validate("clienttxn-rt", "TestClientTxnRT", "TraceClientTxnRT.tla", "TraceClientTxnRT.cfg", n)


def c08_run(ctx):
    with_server_trace(core_run(["MC_relay", "MC_relayB"], ["GEN_relayA", "GEN_relayB", "GEN_relayD", "GEN_recycle", "GEN_chan3", "GEN_veto"]))(ctx)
    if not ctx.violations:   # bindings that lapse in the same instant while the operator's callback is slow (real time)
        ledger_rt(ctx)
    if not ctx.violations:   # the table invariants of the specification after histories of any length
        ctx.apalache_inductive("ChanInd.tla")
        ctx.tlaps_prove("ChanProof.tla")   # the same invariant, for arbitrary sets of clients, numbers and peers


def c09_run(ctx):
    core_run(["MC_disp_serverudp", "MC_disp_serverstream", "MC_disp_client", "MC_framer"],
             ["GEN_disp_serverudp", "GEN_disp_serverstream", "GEN_disp_client", "GEN_framer", "GEN_framerBig", "GEN_tcpB", "GEN_auth", "GEN_clienttxnLA"])(ctx)
    if not ctx.violations:   # well-formed requests of several parties at once: nothing may wedge the server (real time)
        server_rt(ctx)


def ledger_attribute(ctx, exlines, badrel, module, cfg):
    """a datagram that arrived although the deletion of its authority had been announced before it was sent"""
    import json as _json
    ev = _json.loads(exlines[badrel])
    if ev.get("e") == "Unserved":   # a request of the owner that got no answer in 5 s: the server stopped serving
        return {"unserved:%s" % ev.get("what")}, {"C15", "C18", "C09"}
    if ev.get("e") == "ProbeEnd":   # data on a live channel did not arrive: the binding went without its deletion being announced
        return {"probe"}, {"C08", "C15", "C01", "C07"}
    if ev.get("e") == "Down":       # Server.Close under traffic left an allocation behind / unannounced
        return {"down"}, {"C15", "C06"}
    at = ev.get("at")
    own = {"C02", "C15"} if at == "client" else {"C01", "C15"}
    if str(ev.get("id", ""))[1:3] == "z-":   # the last phase: after the Refresh(0) success was in the client's hands
        own = own | {"C06"}
    return {"arrive@%s" % at}, own


def ledger_rt(ctx):
    # (C08 does not own arrivals after an announced deletion: for it only the probes and the final state are judged)
    cfg = "TraceLedgerRTProbe.cfg" if ctx.prop == "C08" else "TraceLedgerRT.cfg"
    ctx.trace_validate("ledger-rt", "TestLedgerRT", "TraceLedgerRT.tla", cfg, 1 if ctx.tier == "quick" else 8, attribute=ledger_attribute)


def with_ledger_rt(run):
    def f(ctx):
        run(ctx)
        if not ctx.violations:
            ledger_rt(ctx)
    return f


def clientconn_attribute(ctx, exlines, badrel, module, cfg):
    """TraceClientConn.tla is C13's specification; a rejected wire event that carries application data (a payload on the
    wrong channel, an altered or duplicated payload) contradicts C05 as well."""
    import json as _json
    ev = _json.loads(exlines[badrel]).get("e")
    return {ev}, ({"C13", "C05"} if ev in ("ChanData", "SendInd", "Read") else {"C13"})


def relaytcp_attribute(ctx, exlines, badrel, module, cfg):
    """TraceRelayTCP.tla: which properties a rejected event of the end-to-end TCP relay contradicts"""
    import json as _json
    ev = _json.loads(exlines[badrel])
    e = ev.get("e")
    if e == "Inbound":
        # handed to Accept without a permission / with a connection already there: C02, C16;
        # not handed over although the application asked for the permission (and keeps its allocation): C14, C16
        return {"Inbound:%s" % ("accepted" if ev.get("accepted") else "refused")}, ({"C02", "C16"} if ev.get("accepted") else {"C14", "C16"})
    if e in ("Recv", "Settle", "Send"):
        return {e}, {"C16", "C05"}
    if e == "End":
        return {e}, {"C16", "C15", "C14"}
    if e == "Stuck":
        return {e}, {"C16", "C18", "C09"}
    return {str(e)}, {"C16"}


def relaytcp(ctx):
    n = 16 if ctx.tier == "quick" else 200
    ctx.trace_validate("relaytcp", "TestRelayTCPTrace", "TraceRelayTCP.tla", "TraceRelayTCP.cfg", n, attribute=relaytcp_attribute)


def with_relaytcp(run):
    def f(ctx):
        run(ctx)
        if not ctx.violations:
            relaytcp(ctx)
    return f


def c13_run(ctx):
    n = 30 if ctx.tier == "quick" else 400
    ctx.model_check("MC_clientconn.tla", "MC_clientconn.cfg", None)
    ctx.trace_validate("clientconn", "TestClientConnTrace", "TraceClientConn.tla", "TraceClientConn.cfg", n)
    if not ctx.violations:   # real time: sixteen writers enter WriteTo at the same instant, round after round
        ctx.trace_validate("clientconn-rt", "TestClientConnRT", "TraceClientConn.tla", "TraceClientConnRT.cfg", 3 if ctx.tier == "quick" else 40)


def c18_run(ctx):
    core_run(["MC_steps", "MC_clienttxn", "MC_clienttxnLive", "MC_reaper"], ["GEN_steps", "GEN_tcpA", "GEN_tcpB", "GEN_lifeB", "GEN_clienttxnA", "GEN_clienttxnLA", "GEN_reaperS", "GEN_disp_client"])(ctx)
    if not ctx.violations:   # the real client under the random drivers: only "did not crash, did not lock up" is judged here
        n = 30 if ctx.tier == "quick" else 300
        ctx.trace_validate("clientconn", "TestClientConnTrace", None, None, n, alive_only=True)
        ctx.trace_validate("relay", "TestRelayTrace", None, None, n, alive_only=True)
        ctx.trace_validate("server", "TestServerTrace", None, None, n, alive_only=True)
        server_rt(ctx)
    if not ctx.violations:   # "no data races": the real-time drivers once more, under the race detector
        k = 1 if ctx.tier == "quick" else 6
        ctx.race_drive("server-rt", "TestServerRT", 2 * k)
        ctx.race_drive("clienttxn-rt", "TestClientTxnRT", 4 * k)
        ctx.race_drive("clientconn-rt", "TestClientConnRT", k, env={"VERIF_RT_ROUNDS": 8, "VERIF_RT_WRITERS": 8})


def c05_run(ctx):
    core_run(["MC_mtu"], ["GEN_mtu", "GEN_mtu1200", "GEN_relayA", "GEN_recycle", "GEN_stream", "GEN_relaygenA", "GEN_v6"])(ctx)
    if not ctx.violations:
        n = 24 if ctx.tier == "quick" else 300
        ctx.trace_validate("relay", "TestRelayTrace", "TraceRelay.tla", "TraceRelay.cfg", n)
    if not ctx.violations:   # the client's choice of encapsulation under refusals, stale nonces and silence: what a WriteTo reported as sent reached the wire in a form the server relays
        ctx.trace_validate("clientconn", "TestClientConnTrace", "TraceClientConn.tla", "TraceClientConn.cfg", 20 if ctx.tier == "quick" else 300,
                           attribute=clientconn_attribute)
    if not ctx.violations:   # parallel writers on the relayed socket (real time): what reaches the wire is what was written
        ctx.trace_validate("clientconn-rt", "TestClientConnRT", "TraceClientConn.tla", "TraceClientConnRT.cfg", 2 if ctx.tier == "quick" else 20,
                           attribute=clientconn_attribute)
    if not ctx.violations:
        server_trace(ctx)


def c14_run(ctx):
    ctx.model_check("KeepAlive.tla", "MC_keepaliveQ.cfg" if ctx.tier == "quick" else "MC_keepalive.cfg", None)
    ctx.model_check("KeepAlive.tla", "MC_keepaliveP.cfg", None)   # longer permissions, PermissionRefreshInterval 12 min
    n = 24 if ctx.tier == "quick" else 300
    ctx.trace_validate("keepalive", "TestKeepAliveTrace", "TraceKeepAlive.tla", "TraceKeepAlive.cfg", n, maxviol=12)
    if not ctx.violations:   # the TCP allocation: its permissions and the allocation itself stay alive while the application idles
        relaytcp(ctx)


PROPS = {
    "C01": dict(title="client data leaves only toward authorised peers", level="model_checking",
                run=with_ledger_rt(with_server_trace(core_run(["MC_relay", "MC_relayB", "MC_tcp", "MC_iso", "MC_veto"], ["GEN_relayA", "GEN_relayB", "GEN_relayD", "GEN_v6", "GEN_tcpB", "GEN_iso", "GEN_stream", "GEN_veto", "GEN_users"]))),
                assumptions=BASE_ASSUME + ["the TCP connect target clause is decided on TurnTCP.tla (Connect to a vetoed peer: 403, no connection)"]),
    "C02": dict(title="only authorised peers reach the client", level="model_checking",
                run=with_relaytcp(with_ledger_rt(with_server_trace(core_run(["MC_relay", "MC_relayB", "MC_v6", "MC_tcp"], ["GEN_relayA", "GEN_relayB", "GEN_relayD", "GEN_v6", "GEN_tcpA", "GEN_tcpC", "GEN_recycle"])))),
                assumptions=BASE_ASSUME + ["the TCP clause (a peer connection is announced only with a live permission for its source IP, else closed silently) is decided on TurnTCP.tla"]),
    "C03": dict(title="state changes only with valid long-term credentials", level="model_checking",
                run=core_run(["MC_auth", "MC_noauth", "MC_nonce"], ["GEN_auth", "GEN_noauth", "GEN_anon", "GEN_nonce", "GEN_users", "GEN_tcpA", "GEN_tcpB"]),
                assumptions=BASE_ASSUME + ["HMAC-SHA1/MD5/SHA256 are treated as uninterpreted injective functions: what is decided is which key and "
                                           "bytes are compared and when, for the credential-defect classes of TurnAuth.tla and the mutation classes of Nonce.tla",
                                           "nonce ages 3601..3659 s are a grey band (implementation granularity) that is never probed"]),
    "C04": dict(title="allocations are isolated by 5-tuple", level="model_checking",
                run=with_server_trace(core_run(["MC_iso", "MC_relay", "MC_stream", "MC_stream2", "MC_stream3"], ["GEN_iso", "GEN_users2", "GEN_relayD", "GEN_v6", "GEN_tcpB", "GEN_relaygenA", "GEN_stream", "GEN_stream2", "GEN_stream3", "GEN_reaper"])),
                assumptions=BASE_ASSUME),
    "C05": dict(title="payloads intact, exactly once, truthful attribution", level="model_checking",
                run=c05_run,
                assumptions=BASE_ASSUME + ["server path (Engine A): payload lengths are the boundary classes of the spec's Lens sets; contents are seeded random, zeros, STUN-like and ChannelData-like",
                                           "end to end (Engine B, TraceRelay.tla): the real client's relayed socket, the real server and memnet peers, both directions, over a datagram and over a stream transport between client and server, "
                                           "inbound MTU 1600 and 1200, 25 boundary lengths plus random ones up to 9000, single datagrams and bursts of 3-8 that arrive before the application reads; "
                                           "every arrival must be byte-identical to something sent in that direction for that endpoint, once, truthfully attributed; within the limits it must have arrived when the execution settles"]),
    "C06": dict(title="allocation lifetime, refresh and deletion are exact", level="model_checking",
                run=with_ledger_rt(with_server_trace(core_run(["MC_time", "MC_life", "MC_stream", "MC_reaper", "MC_longlife"], ["GEN_time", "GEN_users", "GEN_relayA", "GEN_lifeA", "GEN_stream", "GEN_stream3", "GEN_reaper", "GEN_reaperS", "GEN_longlife", "GEN_mtu"]))),
                assumptions=BASE_ASSUME),
    "C07": dict(title="permissions and channels live one full timeout past their last refresh", level="model_checking",
                run=with_server_trace(core_run(["MC_relay", "MC_relayB", "MC_steps", "MC_veto"], ["GEN_relayA", "GEN_relayB", "GEN_steps", "GEN_chan3", "GEN_veto"])),
                assumptions=BASE_ASSUME + ["instants at which a timer is due are explored only by the gated schedules of TurnServerSteps.tla (a refresh racing the pending expiry callback: known finding D14)"]),
    "C08": dict(title="channel bindings are a bijection inside 0x4000-0x7FFF", level="model_checking",
                run=c08_run,
                assumptions=BASE_ASSUME + ["ChanInd.tla (Apalache): the table invariants of the specification -- channel bijection, range, nothing survives its allocation -- "
                                           "are inductive for 3 clients x 4 numbers x 4 peers, i.e. hold after histories of any length (TLC's runs are depth-bounded)",
                                           "ChanProof.tla (TLAPS): the same inductive invariant proved for arbitrary constant sets (29 obligations), Spec => []IndInv"]),
    "C09": dict(title="no input can crash, wedge or spin an endpoint", level="exploration",
                run=c09_run,
                assumptions=["Dispatch.tla is a decision table over message SHAPES (36 for the datagram listener, 13 for the stream listener, 22 for the client's HandleInbound) in three endpoint states; "
                             "TLC enumerates shape x state, the harness concretises each shape to bytes (free bytes from the seed) and compares the outcome class (answer + pinned code / relayed / silent / stream closed; handled, error)",
                             "after every delivery a liveness probe: a Binding transaction from the same and from another party (server), the client's own Binding transaction (client); a real-time watchdog turns a spin or a stuck goroutine into a verdict",
                             "every walk also delivers batches of seeded byte-level mutations of well-formed messages (150 per batch for datagrams and the client, 60 fresh connections for the stream listener) with the liveness oracle only",
                             "the framer walk (Framer.tla) supplies the stream-progress half: a successful read consumes at least one byte for every frame shape including lengths 0xFFEC-0xFFFF",
                             "absence of panics for ALL byte strings is sampled, not decided: a parser fault on a byte pattern that no shape distinguishes and no mutation hits is missed"]),
    "C10": dict(title="stream framing independent of segmentation, always progresses", level="model_checking",
                run=core_run(["MC_framer", "MC_bindreply"], ["GEN_framer", "GEN_framerBig", "GEN_bindreply"]),
                assumptions=["frame sizes use the intended arithmetic in unbounded integers (Framer.tla); the catalogue has 93 streams of 1-3 frames "
                             "(ChannelData lengths 0,1,3,4,5,8,100,65531..65535 with numbers 0x4000/0x4001/0x5000/0x6000/0x7FFF, STUN lengths 0,4,8,100,65512,65516,65532, junk)",
                             "segmentations: byte-sized cuts within 24 bytes after a frame start and 12 before its end, and cuts at end-1/end/end+1/+4/+9/+20 of the current frame and of the stream",
                             "the reader uses one 70000-byte buffer for all calls, as Server.readLoop does; bytes of every returned frame are compared"]),
    "C11": dict(title="wire codecs round-trip and reject malformed input", level="model_checking",
                run=core_run(["MC_codec"], ["GEN_codec"]),
                assumptions=["a pure function: the spec is a decision table (Codec.tla) whose 5226 cases TLC enumerates and checks against the statements of C11; "
                             "payload and raw bytes inside a case are concretised from the seed",
                             "all 65536 channel numbers are swept against the spec's ValidChan set; payload lengths are the classes 0..8, 1499, 1500, 65532, 65533, 65535; "
                             "raw attribute values of every size 0..64 in six fill classes for each of the eleven attributes",
                             "XOR address arithmetic itself lives in pion/stun and is only exercised, not specified"]),
    "C12": dict(title="client transactions: match by ID, retransmit on schedule, terminate", level="model_checking",
                run=c12_run,
                assumptions=["the real turn.Client runs over a scripted in-memory PacketConn in virtual time; transmissions are counted at the server endpoint at the instants the spec names "
                             "(1 ms before, at, and between retransmission timers), returns of PerformTransaction are classified (response / all-retransmissions-failed / closed / write error)",
                             "two concurrent transactions; RTO 100, 200, 500, 1000, 1600 ms; write failures on the 1st, 2nd and 7th transmission; responses, duplicates, late and foreign-id responses at every modelled instant; Close at any point",
                             "liveness C12_Terminates is checked by TLC under weak fairness of time on the timer-to-timer abstraction (MC_clienttxnLive); on the code, termination is observed for every replayed path (virtual time runs until the spec says the caller has returned)",
                             "interleavings inside one instant (a response racing a timer callback while a slow socket write holds the table lock) are not enumerated by this request-atomic model"]),
    "C13": dict(title="the relayed socket honours the PacketConn contract over TURN", level="model_checking",
                run=c13_run,
                assumptions=["Engine B: executions are recorded from the real turn.Client + UDPConn against a scripted server in virtual time by a seeded random driver that is not derived from the spec "
                             "(6 peers on 3 IPs, up to 3 concurrent writers toward different IPs, idle periods up to 45 s, inbound bursts of 1000-1200 messages, reads with deadlines, Close; server reactions success / 400 / 403 / 438 / silence)",
                             "TLC replays every recorded event through the actions of ClientConn.tla (TraceClientConn.tla) and checks the invariants at every step; a rejected event is a violation",
                             "wire events are logged where the server receives them, API events around the calls; concurrent writers toward one peer IP are not driven (they serialise on a mutex the virtual clock cannot see through)",
                             "up to 16384 peers is not reached: the allocator's wrap-around is covered only by the model (MC_clientconn), the driver uses 6 peers"]),
    "C14": dict(title="a live client keeps its relay alive; Close releases it", level="model_checking",
                run=c14_run,
                assumptions=["design level: KeepAlive.tla (client timers vs server count-downs vs the nonce, transactions delayed by loss) is model-checked with absolute time hidden, i.e. for ANY duration, in units of 10 s; "
                             "quick tier without delays, thorough tier with delays up to 10 s per transaction",
                             "code level (Engine B): the real turn.Client against the real turn.Server in one synctest bubble for 2 h 10 min of virtual time per execution, loss of up to 6 of the 7 transmissions of any transaction in either direction "
                             "(probability 0, 0.3, 0.6 or 0.85 per transmission), idle phases of 10-55 min, 4 peers on 2 IPs; probe datagrams both ways; Close at a random moment, in a quarter of the executions right after the nonce has gone stale",
                             "'at once' is read as: at once on a loss-free network, and within one transaction (8 s) when transmissions are lost",
                             "'any number of peers' is not explored (4 peers); with several hundred peers the permission refresh exceeds the server's inbound MTU (observation D13 in DESIGN.md)"]),
    "C15": dict(title="server resources and lifecycle events balance through every teardown", level="model_checking",
                run=with_ledger_rt(core_run(["MC_life", "MC_tcp", "MC_steps", "MC_resv", "MC_reaper"], ["GEN_lifeA", "GEN_lifeB", "GEN_tcpA", "GEN_tcpB", "GEN_steps", "GEN_resv", "GEN_stream", "GEN_stream3", "GEN_reaper", "GEN_reaperS"])),
                assumptions=BASE_ASSUME + ["after every step the lifecycle callbacks made during the step are compared with the spec's EvDiff (created/deleted events per allocation, permission, channel), "
                                           "the relay sockets handed out by the harness generator with the live allocations (open count, closed at most once)",
                                           "every path ends with Server.Close followed by a two-hour drain: created - deleted must be 0 for every key, AllocationCount 0, every relay socket closed, and no lifecycle event may arrive late (a timer that outlived its allocation); "
                                           "a goroutine that outlives the teardown makes the synctest bubble fail and is reported as a crash",
                                           "teardown causes: lifetime expiry, Refresh(0), relay socket read error, Server.Close (UDP allocations); control-connection close, bind timeout, either side closing (TCP allocations, via TurnTCP.tla); "
                                           "teardown in the middle of a slow lifecycle callback is covered by the gated schedules of C18, not here"]),
    "C16": dict(title="TCP relay: bind once, by the owner, within 30 s, bytes intact", level="model_checking",
                run=with_relaytcp(core_run(["MC_tcp"], ["GEN_tcpA", "GEN_tcpB", "GEN_tcpC"])),
                assumptions=["control, relayed, peer and data connections are in-memory buffered streams (harness/memstream.go); connection ids are aliased by order of appearance",
                             "bind timeout is the compiled-in 30 s; chunks of 5-64 seeded bytes are written with the system quiescent between them, so arbitrary coalescing is not explored here (C10 covers segmentation of the framing layer)",
                             "after every step the manager and allocation locks are probed (TryLock) and the tcpConnections table is compared with the spec"]),
    "C17": dict(title="time-windowed credentials validate iff authentic and unexpired", level="model_checking",
                run=core_run(["MC_ltcred"], ["GEN_ltcred"]),
                assumptions=["HMAC-SHA1 / MD5 treated as uninterpreted injective functions (LtCred.tla)",
                             "the handler compares whole seconds; the harness acts a few microseconds after each whole second",
                             "every case is decided twice: by calling the handler directly and end-to-end by an Allocate through a real server in virtual time"]),
    "C20": dict(title="relay address generators honour their configuration", level="model_checking",
                run=core_run(["MC_relaygenA", "MC_relaygenTop", "MC_relaygenOne", "MC_relaygenWide"],
                             ["GEN_relaygenA", "GEN_relaygenTop", "GEN_relaygenOne", "GEN_relaygenWide"]),
                assumptions=["the generators run on the kernel's real loopback sockets (127.0.0.1 / ::1), ports 61100-61113 and 65534-65535, "
                             "which must not be used by another process while the check runs",
                             "the random source is scripted per draw by class (lowest / highest / middle / colliding port), whatever n the code asks for"]),
    "C18": dict(title="no lock-ups, leaked locks or teardown crashes under concurrency", level="model_checking",
                run=c18_run,
                assumptions=["client side: the random drivers of C13 and C05 (real turn.Client against a scripted and against the real server: 438 / 400 / 403 / silence, concurrent writers, bursts, Close) run under the real-time watchdog; "
                             "a goroutine stuck on a mutex or a crash is the verdict, what they record is judged by C13 / C05",
                             "Engine G: TurnServerSteps.tla models a CreatePermission / ChannelBind handler and the permission, channel and allocation timer callbacks at the granularity of the code's scheduling marks "
                             "(verifhook.At calls and operator call-outs); TLC enumerates all 1308 interleavings from 28 initial situations and checks NoCrash, NoDeadlock, LocksBalanced, Answered; every interleaving is forced on the real server by parking each goroutine at its marks",
                             "after every step: lifecycle events so far, permission table; after every interleaving: response, tables, TryLock probes of every manager/allocation lock, one-hour drain; a panic in any goroutine kills the child and is reported with the interleaving; "
                             "a goroutine stuck on a mutex is reported by the real-time watchdog",
                             "the request-atomic walks of this check (TCP relay, teardown causes, client transactions) probe the locks after every step as well",
                             "NOT decided by this family of technique: data races (a TLA+ model has no memory model; the thorough tier runs the same replays under the race detector, which only monitors the schedules replayed) and lock release over all control-flow paths (only the paths the generated behaviours drive)",
                             "call-outs that take time while the library holds a lock (OnPermissionDeleted, OnChannelDeleted, OnPermissionCreated on the ChannelBind path) cannot take virtual time (synctest does not see mutex waits); they are gated, not slept in"]),
    "C19": dict(title="responses correlated, truthful, idempotent", level="model_checking",
                run=with_server_trace(core_run(["MC_time", "MC_iso", "MC_resv", "MC_quota"], ["GEN_time", "GEN_users", "GEN_iso", "GEN_v6", "GEN_v6strict", "GEN_resv", "GEN_relaygenA", "GEN_quota", "GEN_stream", "GEN_reaper"])),
                assumptions=BASE_ASSUME),
}


def replay(ctx, path):
    """Re-run one recorded divergence."""
    r = json.load(open(path)) if path.endswith(".json") else None
    if r is None:
        print(open(path).read()[-3000:])
        print("(crash record: re-run the check to reproduce)")
        return 0
    eng = r.get("engine", "walk")
    test = {"walk": "TestReplay"}.get(eng, "TestReplay")
    rc, out = ctx.gotest(test, dict(VERIF_REPLAY=path))
    print(out[-4000:])
    return 1 if "VIOLATION property=" in out else (0 if rc == 0 else 2)
