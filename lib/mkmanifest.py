#!/usr/bin/env python3
"""Writes /verif/MANIFEST.json from the plan table (lib/plan.py) and lib/manifest_text.py."""
import json, os, sys
ROOT = os.path.dirname(os.path.dirname(os.path.abspath(__file__)))
sys.path.insert(0, os.path.join(ROOT, "lib"))
import plan, manifest_text as T

props = [json.loads(l) for l in open(os.path.join(ROOT, "properties.jsonl"))]
checks = []
for p in props:
    pid = p["id"]
    if pid not in plan.PROPS:
        continue
    t = T.TEXT[pid]
    checks.append(dict(
        property_id=pid,
        quick_cmd="./check %s --tier quick" % pid,
        thorough_cmd="./check %s --tier thorough" % pid,
        evidence_file="/verif/evidence/%s.json" % pid,
        replay_cmd_template="./check %s --replay {path}" % pid,
        engine=t["engine"],
        level_claimed=dict(category=plan.PROPS[pid]["level"], text=t["level_text"], design_ref=t["design_ref"]),
        level_note=t["level_note"],
        technique=t["technique"],
    ))
na = [dict(property_id=p["id"], reason=T.NOT_APPLICABLE.get(p["id"], "not yet covered by the specification; see DESIGN.md section 9 (build order)"))
      for p in props if p["id"] not in plan.PROPS]
m = dict(
    version=1,
    setup_cmd="./setup.sh",
    hooks=dict(guard="verif", enable="go1.26 test -tags verif (harness module with replace => /repo)",
               baseline_off_cmd="cd /repo && GOFLAGS=-mod=mod GOPROXY=off go test -vet=off -count=1 ./internal/... ./e2e/...",
               source_commits=T.HOOK_COMMITS, add_only=True),
    engines=T.ENGINES,
    checks=checks,
    notes=T.NOTES,
    not_applicable=na,
)
json.dump(m, open(os.path.join(ROOT, "MANIFEST.json"), "w"), indent=1)
print("MANIFEST.json:", len(checks), "checks,", len(na), "not_applicable")
