"""Free-text parts of MANIFEST.json."""
HOOK_COMMITS = ["575d9b7", "0b1a48f", "9cf0730"]

ENGINES = [
    dict(name="tlc", path="/verif/spec", serves_properties=["C01", "C02", "C03", "C04", "C05", "C06", "C07", "C08", "C19"],
         kind_free_text="explicit TLA+ specification of the relay server (TurnServer.tla) model-checked exhaustively by TLC for small constants; "
                        "properties are invariants and action properties stated separately from the actions"),
    dict(name="engine-A-walk", path="/verif/harness (TestWalk)", serves_properties=["C01", "C02", "C03", "C04", "C05", "C06", "C07", "C08", "C19"],
         kind_free_text="TLC prints every edge of the state graph of a generation configuration; a planner covers all edges with paths from Init; "
                        "each path is replayed in lock-step on the real turn.Server (in-memory network, testing/synctest virtual time) and after every "
                        "step all datagrams at all endpoints and the projected tables of all clients are compared with the spec's expected outputs and target state"),
]

ENGINES.append(dict(name="engine-B-trace", path="/verif/harness (TestClientConnTrace, TestKeepAliveTrace, TestRelayTrace, TestServerTrace) + /verif/spec/Trace*.tla",
                    serves_properties=["C01", "C02", "C04", "C05", "C06", "C07", "C08", "C12", "C13", "C14", "C15", "C16", "C19"],
                    kind_free_text="code -> spec: seeded random drivers that are not derived from the spec run the real client (and server) in virtual time and record one ndjson event per observable step; "
                                   "TLC replays the events through the specification's actions (trace specification, POSTCONDITION on the high-water mark) and evaluates the invariants at every step"))

ENGINES.append(dict(name="engine-G-gates", path="/verif/harness/steps_sys.go + /verif/spec/TurnServerSteps.tla", serves_properties=["C18", "C15", "C07"],
                    kind_free_text="gated schedules: TLC enumerates interleavings of handler micro-steps with timer callbacks and teardown; the harness parks every goroutine at the code's scheduling marks "
                                   "(build-tagged verifhook.At calls, operator call-outs) and releases them in TLC's order under virtual time"))

NOTES = ("Model-based verification with an explicit TLA+ specification (see DESIGN.md). exit 0 = held on everything explored; "
         "exit 1 = VIOLATION line from real-code behaviour; exit 2 = machinery failure (never a verdict). "
         "VERIF_SEED selects the concrete binding of model names (address forms, peer encodings) and payload bytes.")

CORE_NOTE = ("Trusted: TLC, the Go toolchain and testing/synctest's virtual clock, pion/stun's codec for building/decoding the harness's own "
             "messages, the transcription of the handlers into TurnServer.tla (cross-checked by the walk: every edge TLC generates must be "
             "reproduced by the real server). Bounded by the constants of the configurations listed in the evidence file.")

def core(design, what):
    return dict(engine="engine-A-walk", design_ref=design, technique="TLA+ spec + TLC exhaustive check + lock-step replay of TLC's state graph on the real server "
                "+ trace validation of concurrent executions of the real server against the same spec (TLC infers the linearisation)",
                level_note=CORE_NOTE,
                level_text=what + " TLC checks the formula on every reachable state/step of the bounded configurations; every edge of the generation "
                "slices is then replayed on the real server and the observables this property pins are compared after each step. "
                "Where the plan says so (evidence: walks with engine trace-validation, family server) executions of the real server under concurrent rounds of "
                "requests, indications and peer datagrams, recorded by a driver that is not derived from the spec, are validated against TurnServer.tla by TLC; "
                "a rejected execution is this property's violation when the class of observation that has to be ignored to make it acceptable is one this property pins.")

TEXT = {
    "C01": core("6/C01", "Action property C01_OnlyAuthorised and invariant C01_NeverInstalled: every datagram toward a peer is justified by the sender's own live permission/channel in the pre-state, vetoed or wrong-family peers are never installed."),
    "C02": core("6/C02", "Action property C02_OnlyPermitted: everything a client receives because of a peer datagram goes to the owner only and is justified by a permission for the source IP or a channel bound to exactly the source."),
    "C03": core("6/C03", "TurnAuth.tla: action properties C03_NoEffect / C03_OwnerOnly over every method x 22 credential defects x server states, with and without an auth handler; Nonce.tla: the acceptance table of both nonce implementations for every HMAC length 2..32, 11 mutation classes and ages up to 25 h; challenges must carry a nonce the server then accepts."),
    "C04": core("6/C04", "Frame condition C04_Isolation over three 5-tuples (same IP other port, other IP, shared users/peers/numbers/transaction ids): a step by one client changes nothing of, and emits nothing to or from, any other."),
    "C05": core("6/C05", "C05_WithinLimitsDelivered plus payload identity: within the documented limits an authorised datagram comes out exactly once with the submitted bytes and truthful attribution; beyond them whole or not at all."),
    "C06": core("6/C06", "C06_Exact and NoOrphans: the countdown armed equals the LIFETIME answered (requested if < 3600 else default), Refresh(0) deletes at once, nothing survives its allocation; probed one second before and at every expiry."),
    "C07": core("6/C07", "C07_FullRestart: only successful CreatePermission/ChannelBind raise a countdown and then to the full timeout (the permission timeout on both paths); probed one tick before and at expiry for both orders of the two timeouts."),
    "C08": core("6/C08", "Invariants C08_Bijection, C08_Range and action property C08_Conflict400 over valid and invalid numbers and peers differing only in port."),
    "C09": dict(engine="engine-A-walk", design_ref="6/C09", technique="TLA+ decision tables over message shapes (Dispatch.tla) + TLC + execution of every shape x state on the real endpoints with liveness probes, plus seeded byte-level mutation batches",
                level_note="Level exploration: the spec decides classification and liveness per SHAPE; bytes inside a shape and the mutation batches are seeded samples. Trusted: TLC, Go, the in-memory network, the real-time watchdog.",
                level_text="Every (shape, state) of the three tables is delivered to the real server (datagram and stream listeners) and to the real client's HandleInbound; the observed outcome class must equal the table's and the endpoint must answer a well-formed Binding transaction afterwards, from the same and from another party."),
    "C10": dict(engine="engine-A-walk", design_ref="6/C10", technique="TLA+ spec of the packetiser (Framer.tla) + TLC + replay of every (stream, segmentation) on proto.STUNConn and TCPAllocation.BindConnection",
                level_note="Trusted: TLC, Go, the scripted net.Conn of the harness. Bounded by the stream catalogue and the cut alphabet listed in the evidence assumptions.",
                level_text="Invariants C10_Prefix / C10_Prompt / C10_Progress are model-checked over all segmentations of the catalogue; every edge (one read of k bytes) is replayed on the real reader: frames must come out whole, in order, byte-identical, in the step their last byte arrives, junk must yield an error, zero-length successes are a violation."),
    "C11": dict(engine="engine-A-walk", design_ref="6/C11", technique="TLA+ decision table (Codec.tla) enumerated by TLC, one execution of the real codec per case",
                level_note="Trusted: TLC, Go. A pure function is the situation the technique fits least; what is decided is acceptance, lengths, padding and value identity over the enumerated classes (plus a full sweep of channel numbers), contents are sampled by seed.",
                level_text="C11_Decode / C11_Padding / C11_AttrSizes are checked by TLC over the table; every case is run on the real ChannelData codec (fresh and reused/dirty values) and the eleven attribute codecs, compared byte for byte."),
    "C12": dict(engine="engine-A-walk", design_ref="6/C12", technique="TLA+ spec of the transaction table and timers (ClientTxn.tla) + TLC (safety and liveness) + replay of every fault schedule on the real turn.Client in virtual time",
                level_note="Trusted: TLC, Go, synctest's clock, the scripted PacketConn. Bounded as listed in the evidence assumptions.",
                level_text="C12_ExactlyOnce, C12_OwnResponse, C12_Schedule, C12_NothingLeft (safety) and C12_Terminates (liveness under fairness of time) are model-checked; each edge is replayed: number and instants of transmissions, result and instant of return of PerformTransaction, and the size of the transaction table are compared after every step."),
    "C13": dict(engine="engine-B-trace", design_ref="6/C13", technique="TLA+ spec of the relayed socket (ClientConn.tla) + TLC; trace validation: executions recorded from the real client are replayed through the spec's actions by TLC",
                level_note="Trusted: TLC, Go, synctest, the scripted server and the event log of the harness (events are appended under one lock in the order they happen). The recorded executions are a seeded sample, not an enumeration; the invariants are additionally model-checked on a small environment.",
                level_text="Each recorded event (CreatePermission/ChannelBind request and answer, Send indication, ChannelData, WriteTo call/return, relayed data in, ReadFrom result, Close) must be a step ClientConn.tla allows: data toward a peer only after a CreatePermission success for its IP, ChannelData on n only after the server confirmed n for exactly that peer, numbers in range and injective, reads in FIFO order with the right peer, drops only when the queue is full."),
    "C14": dict(engine="engine-B-trace", design_ref="6/C14", technique="TLA+ model of the refresh machinery against the expiry timers (KeepAlive.tla, unbounded duration) + TLC; trace validation of hours-long executions of the real client against the real server (TraceKeepAlive.tla; TraceRelayTCP.tla for the TCP allocation)",
                level_note="Trusted: TLC, Go, synctest's clock, the in-memory network. The model abstracts time to 10 s units and one peer; the executions are a seeded sample of loss schedules and traffic patterns.",
                level_text="C14_AllocAlive / C14_ChanAlive / C14_PermAlive / C14_CloseReleases are invariants of KeepAlive.tla over its whole (finite, time-abstract) state space; TraceKeepAlive.tla then decides for every recorded execution that every probe sent while the socket was open was delivered, that the server never deleted the allocation under the live client, and that Close released it."),
    "C15": core("6/C15", "TurnLife.tla adds the teardown causes (relay socket failure, Server.Close) and the event ledger EvDiff to the relay model; C15_NothingAfterClose / C15_NoOrphans are invariants. On the code, per step: lifecycle callbacks = EvDiff, open relay sockets = live allocations; per path: Server.Close then a two-hour drain with nothing left, nothing released twice and no late event."),
    "C16": dict(engine="engine-A-walk", design_ref="6/C16", technique="TLA+ spec of the RFC 6062 relay (TurnTCP.tla) + TLC + lock-step replay on a real server with a stream listener + trace validation (TraceRelayTCP.tla) of end-to-end executions of the real client's TCP allocation against the real server",
                level_note="Trusted: TLC, Go, synctest, the harness's in-memory streams. Bounded: 2 clients, 2 users, 2 peer IPs x 2 ports, 3 connection ids, depth 6-7.",
                level_text="TypeOK, C16_UniqueIds, C16_BindOnce, C16_InboundPermitted, C16_Dup446, C16_HeldDelivered are model-checked; every edge (Connect, inbound peer connection, ConnectionBind by right/wrong user and id, data both ways, closes from either side, control-connection close, time to 29/30 s, a Connect whose outgoing dial takes time while others are served) is replayed and responses, indications, piped bytes, closes, the connection table and the locks are compared. TraceRelayTCP.tla then decides recorded executions of client.TCPAllocation (Dial, Accept, BindConnection, refresh timers) against the real server: which dials and inbound connections succeed, byte streams in order and complete, closes seen at the other end, nothing left after Close."),
    "C17": dict(engine="engine-A-walk", design_ref="6/C17", technique="TLA+ decision table (LtCred.tla) + TLC + replay of every case on the real generators/handlers and through a real server",
                level_note="Trusted: TLC, Go, synctest's clock; MAC/Key uninterpreted. Bounded: 2 handler kinds x 3 user ids x 5 durations x mint at 0/1 s after handler construction x probes at every second of a 5 s window x 13 mutation classes.",
                level_text="LtCred.tla states C17_Iff (authenticates iff untouched pair and now <= expiry); TLC checks it over the whole table and every generated case is executed on the real code twice (handler call; signed Allocate through a real server)."),
    "C20": dict(engine="engine-A-walk", design_ref="6/C20", technique="TLA+ spec of the generators' port bookkeeping (RelayGen.tla) + TLC + replay of every allocate/close history on the real generators over real loopback sockets",
                level_note="Trusted: TLC, Go, the kernel's bind semantics. Bounded: ranges (61100-61101, 65534-65535, single port, 4 ports), MaxRetries 1..3, UDP+TCP, IPv4+IPv6, requested and unrequested ports, all fill/drain histories of those ranges.",
                level_text="Action properties C20_NeverShared / C20_InRange / C20_Requested / C20_FailOnlyWhenFull are model-checked; every edge is replayed on the three real generators with a scripted random source and real sockets."),
    "C18": dict(engine="engine-G-gates", design_ref="6/C18", technique="TLA+ refinement at critical-section granularity (TurnServerSteps.tla) + TLC over all interleavings + deterministic replay of each interleaving on the real server with gated goroutines",
                level_note="Trusted: TLC, Go, synctest, the scheduling marks (verifhook). Bounded: one allocation, one permission, one channel, one request in flight against up to three pending timer callbacks. The data-race clause and 'all control-flow paths' are outside what this technique decides (see assumptions).",
                level_text="NoCrash, NoDeadlock, LocksBalanced and Answered are invariants of the Steps model over all interleavings; each interleaving TLC finds is replayed step by step on the real code (gates at the marks), which must park where the model says, emit the events the model says, answer, leave every lock free and survive a one-hour drain."),
    "C19": core("6/C19", "Responses go to the requester with its transaction id; Binding/Allocate report the true mapped address, the relayed address that really is the allocation's and no other's, and the lifetime in force; retransmitted Allocate is replayed, another Allocate gets 437 and changes nothing."),
}

NOT_APPLICABLE = {}
