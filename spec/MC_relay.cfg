\* MC_relay -- generated by mkcfg.py; relay family: 2 clients, 2 users, veto, wrong family, invalid channel number
SPECIFICATION Spec
VIEW View
CONSTANTS
  Clients = {"c1", "c2"}
  Users = {"u1", "u2"}
  PeerIPs = {"A", "B", "X"}
  PeerPorts = {1, 2}
  Fam <- MCFam
  ListenFam <- MCListenFam
  Strict = FALSE
  ReqFams = {0, 6}
  ChanNums = {16384, 16385, 1, 49152}
  LifeReqs <- MCLifeAbsent0
  Txids = {"t1"}
  Pays = {"p"}
  Lens <- MCLenSmall
  InboundMTU = 1600
  PermSeqs <- MCPermSeqs2
  DefaultLife = 5
  PermTO = 2
  ChanTO = 3
  MaxLife = 3600
  Denied <- MCDenied
  Vetoable = {}
  Toks = {"none"}
  ResvTO = 30
  QuotaDenied = {}
  MaxDepth = 6
CONSTRAINT DepthBound
INVARIANTS TypeOK C01_NeverInstalled NoOrphans C08_Bijection C08_Range C19_ReservedOnce
PROPERTIES C01_OnlyAuthorised C01_AskedEveryTime C02_OnlyPermitted C04_Isolation C05_WithinLimitsDelivered C06_Exact C07_FullRestart C08_Conflict400 C19_SecondAllocate C19_TokenNeedsReservation
