SPECIFICATION Spec
VIEW View
CONSTANTS
  Life = 5
  MaxGen = 3
  MaxDepth = 8
CONSTRAINT DepthBound
ACTION_CONSTRAINT EmitEdge
