SPECIFICATION Spec
VIEW View
CHECK_DEADLOCK FALSE
CONSTANTS
  MinPort = 65534
  MaxPort = 65535
  MaxRetries = 2
  Kinds = {"range"}
  Protos = {"udp", "tcp"}
  Fams = {4}
  ReqPorts = {65535}
  Classes = {"lo", "hi", "mid", "hit"}
PROPERTIES C20_NeverShared C20_InRange C20_Requested C20_FailOnlyWhenFull
