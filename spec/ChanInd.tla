------------------------------ MODULE ChanInd ------------------------------
(***************************************************************************)
(* Unbounded-history check (Apalache, inductive invariant) of the channel   *)
(* and permission tables of one allocation manager: the part of             *)
(* TurnServer.tla that C04 / C08 / NoOrphans speak about, without timers'   *)
(* values (expiry is an action that may happen at any time) and without     *)
(* outputs.  TLC checks TurnServer.tla to a bounded depth; this module      *)
(* shows that the table invariants are inductive, i.e. hold after histories *)
(* of ANY length, for the constants of ConstInit.                           *)
(***************************************************************************)
EXTENDS Integers, FiniteSets

CONSTANTS
  \* @type: Set(Str);
  Clients,
  \* @type: Set(Int);
  Nums,
  \* @type: Set(Str);
  PeerIPs,
  \* @type: Set(Int);
  Ports

VARIABLES
  \* @type: Str -> Bool;
  live,
  \* @type: <<Str, Int>> -> <<Str, Int>>;
  chan,
  \* @type: <<Str, Str>> -> Bool;
  perm

ConstInit ==
  /\ Clients = {"c1", "c2", "c3"}
  /\ Nums = {16384, 16385, 16386, 1}
  /\ PeerIPs = {"A", "B"}
  /\ Ports = {1, 2}

\* @type: <<Str, Int>>;
None == <<"none", 0>>
Peers == PeerIPs \X Ports
Valid(n) == n >= 16384 /\ n <= 32767

Init ==
  /\ live = [c \in Clients |-> FALSE]
  /\ chan = [x \in Clients \X Nums |-> None]
  /\ perm = [x \in Clients \X PeerIPs |-> FALSE]

Allocate(c) == ~live[c] /\ live' = [live EXCEPT ![c] = TRUE] /\ UNCHANGED <<chan, perm>>
\* Refresh 0, expiry, relay failure, connection close: everything of c goes at once
Delete(c) ==
  /\ live[c]
  /\ live' = [live EXCEPT ![c] = FALSE]
  /\ chan' = [x \in Clients \X Nums |-> IF x[1] = c THEN None ELSE chan[x]]
  /\ perm' = [x \in Clients \X PeerIPs |-> IF x[1] = c THEN FALSE ELSE perm[x]]
CreatePermission(c, i) == live[c] /\ perm' = [perm EXCEPT ![<<c, i>>] = TRUE] /\ UNCHANGED <<live, chan>>
ChannelBind(c, n, p) ==
  /\ live[c] /\ Valid(n)
  /\ chan[<<c, n>>] = None \/ chan[<<c, n>>] = p                       \* same number, other peer: refused
  /\ \A m \in Nums : m # n => chan[<<c, m>>] # p                        \* same peer, other number: refused
  /\ chan' = [chan EXCEPT ![<<c, n>>] = p]
  /\ perm' = [perm EXCEPT ![<<c, p[1]>>] = TRUE]
  /\ UNCHANGED live
ExpireChan(c, n) == chan[<<c, n>>] # None /\ chan' = [chan EXCEPT ![<<c, n>>] = None] /\ UNCHANGED <<live, perm>>
ExpirePerm(c, i) == perm[<<c, i>>] /\ perm' = [perm EXCEPT ![<<c, i>>] = FALSE] /\ UNCHANGED <<live, chan>>

Next ==
  \/ \E c \in Clients : Allocate(c) \/ Delete(c)
  \/ \E c \in Clients, i \in PeerIPs : CreatePermission(c, i) \/ ExpirePerm(c, i)
  \/ \E c \in Clients, n \in Nums, p \in Peers : ChannelBind(c, n, p)
  \/ \E c \in Clients, n \in Nums : ExpireChan(c, n)

TypeOK ==
  /\ live \in [Clients -> BOOLEAN]
  /\ chan \in [Clients \X Nums -> Peers \cup {None}]
  /\ perm \in [Clients \X PeerIPs -> BOOLEAN]
\* C08: per allocation, numbers <-> peers is a bijection inside the valid range
Bijection == \A c \in Clients : \A n1, n2 \in Nums :
               (chan[<<c, n1>>] # None /\ chan[<<c, n1>>] = chan[<<c, n2>>]) => n1 = n2
Range == \A c \in Clients, n \in Nums : chan[<<c, n>>] # None => Valid(n)
\* C06 / C15: nothing survives its allocation
NoOrphans == \A c \in Clients : ~live[c] =>
               /\ \A n \in Nums : chan[<<c, n>>] = None
               /\ \A i \in PeerIPs : ~perm[<<c, i>>]
IndInv == TypeOK /\ Bijection /\ Range /\ NoOrphans
IndInit == IndInv
=============================================================================
