------------------------------- MODULE LtCred -------------------------------
(***************************************************************************)
(* Time-windowed shared-secret credentials (lt_cred.go).                    *)
(*   Gen(kind, secret, user, dur) @ now:  username = exp  |  exp:user       *)
(*                                        with exp = now + dur,             *)
(*                                        password = MAC(secret, username)  *)
(*   Handler(kind, secret)(username, realm) @ now:  parse exp, reject if    *)
(*       exp < now, key = Key(username, realm, MAC(secret, username))       *)
(*   a request signed with (username, password) authenticates iff the       *)
(*   handler accepts and its key = Key(username, realm, password).          *)
(* MAC and Key are uninterpreted and injective: the spec carries the        *)
(* (secret, username) pair a password was derived from.                     *)
(* The handler is built at time 0; credentials are minted later.  Time and   *)
(* durations are counted in tenths of a second: the generators stamp the    *)
(* whole second of now + duration (floor, also for negative and fractional  *)
(* durations) and the handlers compare whole seconds, so a credential is    *)
(* good while the current second is not after the stamped one.              *)
(***************************************************************************)
EXTENDS Integers, Sequences, TLC, Json

CONSTANTS Kinds,      \* {"lt", "rest"}
          Users,      \* user ids for the REST generator
          Durs,       \* durations in tenths of a second (negative, zero and fractional seconds included)
          Ticks,      \* time steps
          Muts,       \* mutations of the presented pair
          MaxNow

VARIABLES kind, now, cred, out, last
vars == <<kind, now, cred, out, last>>
NoCred == [minted |-> FALSE]

Init == /\ kind \in Kinds /\ now = 0 /\ cred = NoCred /\ out = {} /\ last = [a |-> "Init"]

Mint(user, dur) ==
  /\ ~cred.minted /\ now <= 13
  /\ cred' = [minted |-> TRUE, user |-> user, exp |-> (now + dur) \div 10]     \* the stamped second
  /\ out' = {} /\ last' = [a |-> "Mint", user |-> user, dur |-> dur]
  /\ UNCHANGED <<kind, now>>

Tick(d) ==
  /\ now + d <= MaxNow
  /\ now' = now + d
  /\ out' = {} /\ last' = [a |-> "Tick", d |-> d]
  /\ UNCHANGED <<kind, cred>>

\* the decision table: only the untouched pair of this secret, while now <= exp
Sec == now \div 10
\* ("restFormKeyed": the name "<exp>:x" with the password the holder of the secret derives for exactly that name --
\*  a genuine credential of the REST kind (for user x), and for the plain kind a name that is not a number)
Genuine(mut) == mut = "none" \/ (mut = "restFormKeyed" /\ kind = "rest")
Authenticates(mut) == Genuine(mut) /\ Sec <= cred.exp

Present(mut) ==
  /\ cred.minted
  /\ out' = {[k |-> "verdict", ok |-> Authenticates(mut)]}
  /\ last' = [a |-> "Present", mut |-> mut, left |-> cred.exp - Sec]
  /\ UNCHANGED <<kind, now, cred>>

Next == (\E u \in Users, d \in Durs : Mint(u, d)) \/ (\E d \in Ticks : Tick(d)) \/ (\E m \in Muts : Present(m))
Spec == Init /\ [][Next]_vars
View == <<kind, now, cred>>

\* C17
C17_Iff ==
  [][last'.a = "Present" =>
       out' = {[k |-> "verdict", ok |-> (Genuine(last'.mut) /\ last'.left >= 0)]}]_vars

MCDurs == {-600, 0, 10, 20, 30, -4, 8, 25, -2000000000}   \* (the last one stands for the most negative duration there is: the harness mints with time.Duration(math.MinInt64), 292 years back)
MCMuts == {"none", "tsPlus1", "tsMinus1", "nonNumeric", "emptyUser", "leadingPlus", "leadingSpace", "extraColon",
           "pwOtherSecret", "pwTrimmedSecret", "pwOtherName", "pwFlip", "pwEmpty", "userSwap",
           "hexTs", "underscoreTs", "octalTs", "expTs", "restFormKeyed"}
ASSUME PrintT("META " \o ToJson([Sys |-> "ltcred"]))
EmitEdge ==
  PrintT("EDGE " \o ToJson([s |-> [kind |-> kind, now |-> now, cred |-> cred], a |-> last', o |-> out',
                            t |-> [kind |-> kind', now |-> now', cred |-> cred']]))
=============================================================================
