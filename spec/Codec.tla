------------------------------- MODULE Codec -------------------------------
(***************************************************************************)
(* The TURN wire codecs of internal/proto as decision tables: ChannelData   *)
(* encode / decode / IsChannelData and the size and value rules of the      *)
(* eleven TURN attributes.  There is no interesting state: every case is a  *)
(* self-loop whose label carries the case and whose output carries the      *)
(* verdict the codec must give; TLC enumerates the table and checks the     *)
(* statements of C11 over it, the harness executes every case on the real   *)
(* codec (payload / raw bytes concretised from the seed, compared byte for  *)
(* byte).                                                                   *)
(***************************************************************************)
EXTENDS Integers, Sequences, FiniteSets, TLC, Json

CONSTANTS Nums,       \* channel numbers tried in the case tables (the sweep below covers all 65536)
          PayLens,    \* payload lengths for the round trip
          Declared,   \* declared lengths for raw decode
          Actual,     \* bytes actually present after the header
          Attrs,      \* attribute names
          RawSizes,   \* raw attribute value sizes 0..64
          Fills       \* classes of raw bytes

VARIABLES z, out, last      \* z: the (empty) state
vars == <<z, out, last>>

ValidChan(n) == n >= 16384 /\ n <= 32767
Pad4(n)      == ((n + 3) \div 4) * 4

Init == z = 0 /\ out = {} /\ last = [a |-> "Init"]

\* Encode then Decode: same number, same payload, length field = payload length, zero padding to 4
CDRoundTrip(n, len, reuse) ==
  /\ last' = [a |-> "CDRoundTrip", num |-> n, len |-> len, reuse |-> reuse]
  /\ out' = {[k |-> "cd", wire |-> 4 + Pad4(len), lenfield |-> len, decodes |-> ValidChan(n), data |-> len]}

\* Decode / IsChannelData of a raw buffer: header (n, declared) followed by `actual` bytes
CDDecode(n, declared, actual) ==
  /\ last' = [a |-> "CDDecode", num |-> n, declared |-> declared, actual |-> actual]
  /\ out' = {[k |-> "cdraw", ok |-> ValidChan(n) /\ declared <= actual, data |-> declared]}

\* a buffer shorter than the 4-byte header never decodes
CDShort(size) ==
  /\ last' = [a |-> "CDShort", size |-> size]
  /\ out' = {[k |-> "cdraw", ok |-> FALSE, data |-> 0]}

\* attribute size rules: the sizes a raw value may have (the value rule is in RawOK)
FixedSize(attr) ==
  CASE attr \in {"CHANNEL-NUMBER", "LIFETIME", "REQUESTED-TRANSPORT", "REQUESTED-ADDRESS-FAMILY", "CONNECTION-ID"} -> {4}
    [] attr = "EVEN-PORT" -> {1}
    [] attr = "RESERVATION-TOKEN" -> {8}
    [] attr = "DONT-FRAGMENT" -> {0}
    [] attr \in {"XOR-PEER-ADDRESS", "XOR-RELAYED-ADDRESS"} -> {8, 20}
    [] attr = "DATA" -> 0..65535
\* fill classes: "zeros", "ones", "rand", and for the address / family attributes the class of the
\* leading family byte(s): "fam4", "fam6", "famBad"
RawOK(attr, size, fill) ==
  /\ size \in FixedSize(attr)
  /\ attr \in {"XOR-PEER-ADDRESS", "XOR-RELAYED-ADDRESS"} =>
        (size = 8 /\ fill = "fam4") \/ (size = 20 /\ fill = "fam6")
  /\ attr = "REQUESTED-ADDRESS-FAMILY" => fill \in {"fam4", "fam6"}

\* EVEN-PORT carries one flag, the R bit (the top bit of its only byte): set in "ones" and "rbit" (0x80, the reserved
\* bits zero: what RFC 5766 clients send), clear in "zeros"; other fills set reserved bits, whose meaning is left free
Reserve(attr, fill) == IF attr # "EVEN-PORT" THEN "free"
                       ELSE IF fill \in {"ones", "rbit"} THEN "yes" ELSE IF fill = "zeros" THEN "no" ELSE "free"
AttrRaw(attr, size, fill) ==
  /\ last' = [a |-> "AttrRaw", attr |-> attr, size |-> size, fill |-> fill]
  /\ out' = {[k |-> "attr", ok |-> RawOK(attr, size, fill), reserve |-> Reserve(attr, fill)]}

\* value round trip: GetFrom(AddTo(v)) = v for the value classes of each attribute
AttrRoundTrip(attr, v) ==
  /\ last' = [a |-> "AttrRoundTrip", attr |-> attr, v |-> v]
  /\ out' = {[k |-> "attrrt", same |-> TRUE]}

ValueClasses == {"zero", "one", "max16", "over16", "max32", "v4", "v6", "true", "false", "token", "bytes0", "bytes1500"}

Next ==
  \/ \E n \in Nums, l \in PayLens, r \in {"fresh", "reused"} : CDRoundTrip(n, l, r)
  \/ \E n \in Nums, d \in Declared, x \in Actual : CDDecode(n, d, x)
  \/ \E s \in 0..3 : CDShort(s)
  \/ \E t \in Attrs, s \in RawSizes, f \in Fills : AttrRaw(t, s, f)
  \/ \E t \in Attrs, v \in ValueClasses : AttrRoundTrip(t, v)
Spec == Init /\ [][Next /\ UNCHANGED z]_vars
View == z

\* C11 over the table
C11_Decode ==
  [][\A o \in out' : o.k = "cdraw" =>
       (o.ok <=> (last'.a = "CDDecode" /\ ValidChan(last'.num) /\ last'.declared <= last'.actual))]_vars
C11_Padding ==
  [][\A o \in out' : o.k = "cd" => o.wire % 4 = 0 /\ o.wire - 4 - o.lenfield \in 0..3 /\ o.lenfield = last'.len]_vars
C11_AttrSizes ==
  [][\A o \in out' : (o.k = "attr" /\ o.ok) => last'.size \in FixedSize(last'.attr)]_vars

MCNums     == {0, 1, 16383, 16384, 16385, 20480, 32766, 32767, 32768, 65535}
MCPayLens  == {0, 1, 2, 3, 4, 5, 7, 8, 1499, 1500, 65532, 65533, 65535}
MCDeclared == {0, 1, 4, 5, 100, 65535}
MCActual   == {0, 1, 3, 4, 5, 8, 99, 100, 101}
MCAttrs    == {"CHANNEL-NUMBER", "LIFETIME", "XOR-PEER-ADDRESS", "XOR-RELAYED-ADDRESS", "DATA", "REQUESTED-TRANSPORT",
               "REQUESTED-ADDRESS-FAMILY", "EVEN-PORT", "RESERVATION-TOKEN", "CONNECTION-ID", "DONT-FRAGMENT"}
MCFills    == {"zeros", "ones", "rand", "fam4", "fam6", "famBad", "rbit"}
\* the harness sweeps all 65536 channel numbers against this set
ASSUME PrintT("META " \o ToJson([Sys |-> "codec", Extra |-> [validlo |-> "16384", validhi |-> "32767"]]))
ASSUME \A n \in 0..65535 : ValidChan(n) <=> (n >= 16384 /\ n <= 32767)
EmitEdge == PrintT("EDGE " \o ToJson([s |-> [st |-> 0], a |-> last', o |-> out', t |-> [st |-> 0]]))
=============================================================================
