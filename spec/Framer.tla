------------------------------- MODULE Framer -------------------------------
(***************************************************************************)
(* The stream packetiser (proto.STUNConn.ReadFrom / consumeSingleTURNFrame) *)
(* and the client's ConnectionBind reply reader (TCPAllocation.             *)
(* BindConnection) over a byte stream that arrives in arbitrary segments.   *)
(*                                                                         *)
(* stream  a sequence of frames; each frame has a kind, a declared length   *)
(*         field and (ChannelData) a number; its size on the wire is        *)
(*         computed here with the INTENDED arithmetic in unbounded integers *)
(* fed     bytes delivered to the reader so far                             *)
(* got     frames the reader has returned so far                            *)
(* Feed(k) delivers the next k bytes in one read.  Every frame whose last   *)
(* byte has now arrived must come out, whole, in order, one per call;       *)
(* bytes that cannot begin a frame yield an error, never data.              *)
(***************************************************************************)
EXTENDS Integers, Sequences, FiniteSets, TLC, Json

CONSTANTS Streams,     \* the catalogue of frame sequences tried
          Mode         \* "framer" or "bindreply"

VARIABLES stream, fed, got, dead, out, last
vars == <<stream, fed, got, dead, out, last>>

Pad4(n) == ((n + 3) \div 4) * 4
\* wire size of a frame: STUN = 20-byte header + declared length; ChannelData = 4-byte header +
\* declared length padded to 4 (over a stream); junk = 24 bytes that cannot begin a frame
Size(f) == CASE f.k = "stun" -> 20 + f.len
             [] f.k = "chan" -> 4 + Pad4(f.len)
             [] f.k = "junk" -> 24
\* byte offset at which frame i ends
RECURSIVE EndOf(_, _)
EndOf(s, i) == IF i = 0 THEN 0 ELSE EndOf(s, i - 1) + Size(s[i])
Total(s) == EndOf(s, Len(s))
\* frames complete when n bytes have been fed
Complete(s, n) == {i \in 1..Len(s) : EndOf(s, i) <= n}
NComplete(s, n) == Cardinality(Complete(s, n))
\* first junk frame (0 = none)
FirstJunk(s) == IF \E i \in 1..Len(s) : s[i].k = "junk"
                  THEN CHOOSE i \in 1..Len(s) : s[i].k = "junk" /\ \A j \in 1..(i-1) : s[j].k # "junk"
                  ELSE 0

Init == /\ stream \in Streams /\ fed = 0 /\ got = 0 /\ dead = FALSE /\ out = <<>> /\ last = [a |-> "Init"]

\* segment sizes tried from a position: small ones near a frame start / end, and the cuts
\* relative to the end of the current frame and of the stream
Cur       == got + 1
FrameEnd  == IF Cur <= Len(stream) THEN EndOf(stream, Cur) ELSE Total(stream)
Remaining == Total(stream) - fed
FrameStart == IF Cur <= Len(stream) THEN EndOf(stream, Cur - 1) ELSE Total(stream)
\* byte-sized segments only near a frame boundary (within the header region or the last bytes)
NearEdge  == fed - FrameStart < 24 \/ FrameEnd - fed <= 12
Small     == IF NearEdge THEN {1, 2, 3, 4, 5, 8, 9, 11, 19, 20, 21} ELSE {}
Cuts == {k \in (Small \cup {FrameEnd - fed - 1, FrameEnd - fed, FrameEnd - fed + 1, FrameEnd - fed + 4,
                            FrameEnd - fed + 9, FrameEnd - fed + 20, Remaining, Remaining - 1}) :
            k >= 1 /\ k <= Remaining}

Feed(k) ==
  /\ ~dead /\ k \in Cuts
  /\ LET n    == fed + k
         j    == FirstJunk(stream)
         \* frames before the first junk frame that are complete now
         upto == IF j = 0 THEN NComplete(stream, n) ELSE
                   IF NComplete(stream, n) < j - 1 THEN NComplete(stream, n) ELSE j - 1
         \* the reader reaches the junk once everything before it came out and >= 20 junk bytes are there
         err  == j # 0 /\ upto = j - 1 /\ n - EndOf(stream, j - 1) >= 20
     IN /\ fed' = n
        /\ got' = upto
        /\ dead' = err
        /\ out' = [i \in 1..(upto - got) |-> got + i] \o (IF err THEN <<0>> ELSE <<>>)   \* 0 = error
        /\ last' = [a |-> "Feed", k |-> k]
  /\ UNCHANGED stream

(* the reader's deadline expires while it waits for the rest of a frame: it reports the timeout (out = <<-1>>), keeps
   what it has, and goes on when the deadline is extended -- a pause between two segments is one more way of cutting
   the stream, and what comes out must not depend on it *)
Timeout ==
  /\ ~dead /\ fed < Total(stream) /\ Mode # "bindreply"
  /\ out' = <<-1>> /\ last' = [a |-> "Timeout"]
  /\ UNCHANGED <<stream, fed, got, dead>>

Next == (\E k \in Cuts : Feed(k)) \/ Timeout
Spec == Init /\ [][Next]_vars
View == <<stream, fed, got, dead>>

\* C10: what came out so far is a prefix of the stream, in order, whole
C10_Prefix == got <= Len(stream) /\ (\A i \in 1..got : EndOf(stream, i) <= fed)
\* C10: a frame comes out in the step in which its last byte arrives (never withheld)
C10_Prompt == dead \/ got = (IF FirstJunk(stream) = 0 THEN NComplete(stream, fed)
                             ELSE IF NComplete(stream, fed) < FirstJunk(stream) - 1 THEN NComplete(stream, fed)
                             ELSE FirstJunk(stream) - 1)
\* C10: every frame returned has at least one byte (all sizes are >= 4)
C10_Progress == \A i \in 1..Len(stream) : Size(stream[i]) >= 4

\* catalogue
\* body: what the data of the frame looks like -- "rand", or "cookie": it starts with the STUN magic cookie, so
\* that bytes 4..7 of a ChannelData frame are what bytes 4..7 of a STUN message are (the frame is ChannelData
\* all the same: its first two bits say so)
Ch(n, l)  == [k |-> "chan", num |-> n, len |-> l, body |-> "rand"]
Ck(n, l)  == [k |-> "chan", num |-> n, len |-> l, body |-> "cookie"]
St(l)     == [k |-> "stun", num |-> 0, len |-> l, body |-> "rand"]
Junk      == [k |-> "junk", num |-> 0, len |-> 0, body |-> "rand"]
Basic == {Ch(16384, 0), Ch(16384, 1), Ch(16385, 3), Ch(20480, 4), Ch(32767, 5), Ch(16384, 8), Ch(24576, 100),
          St(0), St(4), St(8), St(100)}
Extreme == {Ch(16384, 65531), Ch(16384, 65532), Ch(20480, 65533), Ch(32767, 65535), St(65512), St(65516), St(65532)}
MCStreams ==
  {<<f>> : f \in Basic \cup Extreme \cup {Junk}}
  \cup {<<f, g>> : f \in Basic, g \in {Ch(16384, 1), Ch(32767, 5), St(0), St(8), Ch(20480, 4)}}
  \cup {<<f, g>> : f \in Extreme, g \in {Ch(16384, 1), St(4)}}
  \cup {<<Ch(16384, 0), Ch(16385, 0), Ch(16386, 0)>>, <<St(0), Ch(16384, 3), St(4)>>, <<Ch(16384, 2), Junk>>,
        <<St(8), Junk, St(0)>>, <<Ch(20480, 7), St(12), Ch(32767, 1)>>}
  \cup {<<Ck(16384, 4)>>, <<Ck(16384, 12)>>, <<Ck(16384, 16)>>, <<Ck(16385, 17), St(4)>>, <<Ck(32767, 100), Ch(16384, 1)>>,
        <<St(0), Ck(16384, 40), Ck(16384, 16), St(8)>>}
\* frames larger than the reader's buffer (Mode "framer1600": a 1600-byte buffer, as the server's read loop has):
\* the read reports the frame's full size, and the frames behind it come out as if nothing had happened
MCBigStreams ==
  {<<Ch(16384, 2000), St(0), Ch(16385, 5)>>, <<St(1700), Ch(16384, 1), St(4)>>, <<Ch(16384, 1596), St(4)>>,
   <<Ch(16384, 1597), St(4), Ch(16384, 0)>>, <<Ck(16384, 1700), Ch(16384, 3)>>, <<Ch(20480, 65535), St(4)>>, <<St(65516), Ch(16384, 1)>>}
MCBindStreams ==
  {<<St(l)>> : l \in {0, 4, 8, 24, 100}} \cup {<<St(l), Ch(16384, 5)>> : l \in {8, 24}}

ASSUME PrintT("META " \o ToJson([Sys |-> Mode]))
EmitEdge ==
  PrintT("EDGE " \o ToJson([s |-> [stream |-> stream, fed |-> fed, got |-> got, dead |-> dead], a |-> last', o |-> out',
                            t |-> [stream |-> stream', fed |-> fed', got |-> got', dead |-> dead']]))
=============================================================================
