\* the invariants the properties would like; expected to FAIL on the faithful model (D11, D14)
SPECIFICATION Spec
INVARIANTS C15_NothingInDeadAlloc C07_SuccessMeansInstalled
CHECK_DEADLOCK FALSE
