\* Engine A generation: auth family, the only user is one the operator identifies by the empty user id
SPECIFICATION AuthSpec
VIEW View
CONSTANTS
  Clients = {"c1"}
  Users = {"anon"}
  PeerIPs = {"A", "B"}
  PeerPorts = {1, 2}
  Fam <- MCFam
  ListenFam <- MCListenFam
  Strict = FALSE
  ReqFams = {0}
  ChanNums = {16384}
  LifeReqs <- MCLifeAbsent0
  Txids = {"t1"}
  Pays = {"p"}
  Lens <- MCLenSmall
  InboundMTU = 1600
  PermSeqs <- MCPermSeqsA
  DefaultLife = 50
  PermTO = 20
  ChanTO = 30
  MaxLife = 3600
  Denied <- MCNoDenied
  Vetoable = {}
  Toks = {"none"}
  ResvTO = 30
  QuotaDenied = {}
  HasAuth = TRUE
  CredKinds <- MCCredKindsAnon
  Methods <- MCMethods
  MaxDepth = 4
CONSTRAINT DepthBound
ACTION_CONSTRAINT EmitEdge
