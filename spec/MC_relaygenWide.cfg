SPECIFICATION Spec
VIEW View
CHECK_DEADLOCK FALSE
CONSTANTS
  MinPort = 61110
  MaxPort = 61113
  MaxRetries = 1
  Kinds = {"range"}
  Protos = {"udp", "tcp"}
  Fams = {4}
  ReqPorts = {61112}
  Classes = {"lo", "hi", "mid", "hit"}
PROPERTIES C20_NeverShared C20_InRange C20_Requested C20_FailOnlyWhenFull
