----------------------------- MODULE TraceRelay -----------------------------
(***************************************************************************)
(* Engine B for C05, end to end: application datagrams through the real     *)
(* client's relayed socket, the real server and the peers, both ways, over  *)
(* a datagram or a stream transport (harness/relay_trace_test.go).          *)
(*   sent   id -> what was submitted (direction, length, peer)              *)
(*   got    ids that have arrived                                           *)
(* C05: whatever arrives is byte-identical to something that was sent, in   *)
(* the right direction, at the right peer / attributed to the right peer,   *)
(* from the relayed address, and arrives once; within the documented size   *)
(* limits it MUST have arrived when the execution has settled; beyond them  *)
(* it arrives whole or not at all.                                          *)
(***************************************************************************)
EXTENDS Integers, Sequences, FiniteSets, TLC, Json

CONSTANT TraceFile
Tr == ndJsonDeserialize(TraceFile)

VARIABLES l, sent, got, mtu
tvars == <<l, sent, got, mtu>>
Line == Tr[l]
IsEvent(e) == l <= Len(Tr) /\ Line.e = e /\ l' = l + 1
Put(f, k, v) == [x \in DOMAIN f \cup {k} |-> IF x = k THEN v ELSE f[x]]

TInit == l = 1 /\ sent = <<>> /\ got = {} /\ mtu = 1600

TReset == IsEvent("Reset") /\ sent' = <<>> /\ got' = {} /\ mtu' = Line.mtu
TSend  == IsEvent("Send") /\ Line.id \notin DOMAIN sent
          /\ sent' = Put(sent, Line.id, Line) /\ UNCHANGED <<got, mtu>>
\* an arrival: intact, known, once, right direction and attribution
TRecv  == IsEvent("Recv")
          /\ Line.intact
          /\ Line.id \in DOMAIN sent
          /\ Line.id \notin got
          /\ (IF Line.at = "client"
                THEN sent[Line.id].dir = "p2c" /\ Line.from = sent[Line.id].from
                ELSE sent[Line.id].dir = "c2p" /\ Line.at = sent[Line.id].to /\ Line.fromrelay)
          /\ got' = got \cup {Line.id} /\ UNCHANGED <<sent, mtu>>
\* the application read with a buffer smaller than the datagram at the head of the queue: the datagram is
\* refused (io.ErrShortBuffer), never handed over cut to the buffer (the driver does this only when one
\* known datagram can be queued)
TShort == IsEvent("Short")
          /\ Line.id \in DOMAIN sent /\ Line.id \notin got
          /\ sent[Line.id].dir = "p2c" /\ sent[Line.id].len > Line.buf
          /\ got' = got \cup {Line.id} /\ UNCHANGED <<sent, mtu>>
\* documented limits: a client message is processed iff its wire size is below the inbound MTU (a Send
\* indication of the real client is 48 bytes larger than its padded payload), a peer datagram iff <= 1600
Must(s) == IF s.dir = "c2p" THEN s.len <= mtu - 52 ELSE s.len <= 1600 /\ s.len <= mtu - 52
TEnd   == IsEvent("End")
          /\ \A id \in DOMAIN sent : Must(sent[id]) => id \in got
          /\ UNCHANGED <<sent, got, mtu>>
TNote  == IsEvent("Note") /\ UNCHANGED <<sent, got, mtu>>
TNext == TReset \/ TSend \/ TRecv \/ TShort \/ TEnd \/ TNote
TSpec == TInit /\ [][TNext]_tvars

Progress == TLCSet(1, IF l > TLCGet(1) THEN l ELSE TLCGet(1))
ASSUME TLCSet(1, 0)
Accepted ==
  IF TLCGet(1) = Len(Tr) + 1 THEN PrintT("TRACE ACCEPTED " \o ToString(Len(Tr)))
  ELSE /\ PrintT("TRACE REJECTED at line " \o ToString(TLCGet(1)) \o " of " \o ToString(Len(Tr)))
       /\ PrintT(Tr[TLCGet(1)])
       /\ FALSE
=============================================================================
