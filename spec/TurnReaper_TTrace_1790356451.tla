---- MODULE TurnReaper_TTrace_1790356451 ----
EXTENDS TurnReaper, Sequences, TLCExt, Toolbox, Naturals, TLC

_expression ==
    LET TurnReaper_TEExpression == INSTANCE TurnReaper_TEExpression
    IN TurnReaper_TEExpression!expression
----

_trace ==
    LET TurnReaper_TETrace == INSTANCE TurnReaper_TETrace
    IN TurnReaper_TETrace!trace
----

_inv ==
    ~(
        TLCGet("level") = Len(_TETrace)
        /\
        gen = (0)
        /\
        last = ([a |-> "ServerClose"])
        /\
        rem = (0)
        /\
        zombies = ({})
        /\
        down = (TRUE)
        /\
        live = (FALSE)
        /\
        cb = ("none")
        /\
        out = ({})
    )
----

_init ==
    /\ cb = _TETrace[1].cb
    /\ out = _TETrace[1].out
    /\ rem = _TETrace[1].rem
    /\ zombies = _TETrace[1].zombies
    /\ last = _TETrace[1].last
    /\ down = _TETrace[1].down
    /\ live = _TETrace[1].live
    /\ gen = _TETrace[1].gen
----

_next ==
    /\ \E i,j \in DOMAIN _TETrace:
        /\ \/ /\ j = i + 1
              /\ i = TLCGet("level")
        /\ cb  = _TETrace[i].cb
        /\ cb' = _TETrace[j].cb
        /\ out  = _TETrace[i].out
        /\ out' = _TETrace[j].out
        /\ rem  = _TETrace[i].rem
        /\ rem' = _TETrace[j].rem
        /\ zombies  = _TETrace[i].zombies
        /\ zombies' = _TETrace[j].zombies
        /\ last  = _TETrace[i].last
        /\ last' = _TETrace[j].last
        /\ down  = _TETrace[i].down
        /\ down' = _TETrace[j].down
        /\ live  = _TETrace[i].live
        /\ live' = _TETrace[j].live
        /\ gen  = _TETrace[i].gen
        /\ gen' = _TETrace[j].gen

\* Uncomment the ASSUME below to write the states of the error trace
\* to the given file in Json format. Note that you can pass any tuple
\* to `JsonSerialize`. For example, a sub-sequence of _TETrace.
    \* ASSUME
    \*     LET J == INSTANCE Json
    \*         IN J!JsonSerialize("TurnReaper_TTrace_1790356451.json", _TETrace)

=============================================================================

 Note that you can extract this module `TurnReaper_TEExpression`
  to a dedicated file to reuse `expression` (the module in the 
  dedicated `TurnReaper_TEExpression.tla` file takes precedence 
  over the module `TurnReaper_TEExpression` below).

---- MODULE TurnReaper_TEExpression ----
EXTENDS TurnReaper, Sequences, TLCExt, Toolbox, Naturals, TLC

expression == 
    [
        \* To hide variables of the `TurnReaper` spec from the error trace,
        \* remove the variables below.  The trace will be written in the order
        \* of the fields of this record.
        cb |-> cb
        ,out |-> out
        ,rem |-> rem
        ,zombies |-> zombies
        ,last |-> last
        ,down |-> down
        ,live |-> live
        ,gen |-> gen
        
        \* Put additional constant-, state-, and action-level expressions here:
        \* ,_stateNumber |-> _TEPosition
        \* ,_cbUnchanged |-> cb = cb'
        
        \* Format the `cb` variable as Json value.
        \* ,_cbJson |->
        \*     LET J == INSTANCE Json
        \*     IN J!ToJson(cb)
        
        \* Lastly, you may build expressions over arbitrary sets of states by
        \* leveraging the _TETrace operator.  For example, this is how to
        \* count the number of times a spec variable changed up to the current
        \* state in the trace.
        \* ,_cbModCount |->
        \*     LET F[s \in DOMAIN _TETrace] ==
        \*         IF s = 1 THEN 0
        \*         ELSE IF _TETrace[s].cb # _TETrace[s-1].cb
        \*             THEN 1 + F[s-1] ELSE F[s-1]
        \*     IN F[_TEPosition - 1]
    ]

=============================================================================



Parsing and semantic processing can take forever if the trace below is long.
 In this case, it is advised to uncomment the module below to deserialize the
 trace from a generated binary file.

\*
\*---- MODULE TurnReaper_TETrace ----
\*EXTENDS TurnReaper, IOUtils, TLC
\*
\*trace == IODeserialize("TurnReaper_TTrace_1790356451.bin", TRUE)
\*
\*=============================================================================
\*

---- MODULE TurnReaper_TETrace ----
EXTENDS TurnReaper, TLC

trace == 
    <<
    ([gen |-> 0,last |-> [a |-> "Init"],rem |-> 0,zombies |-> {},down |-> FALSE,live |-> FALSE,cb |-> "none",out |-> {}]),
    ([gen |-> 0,last |-> [a |-> "ServerClose"],rem |-> 0,zombies |-> {},down |-> TRUE,live |-> FALSE,cb |-> "none",out |-> {}])
    >>
----


=============================================================================

---- CONFIG TurnReaper_TTrace_1790356451 ----
CONSTANTS
    Life = 5
    MaxGen = 3
    Stream = TRUE
    MaxDepth = 10

INVARIANT
    _inv

CHECK_DEADLOCK
    \* CHECK_DEADLOCK off because of PROPERTY or INVARIANT above.
    FALSE

INIT
    _init

NEXT
    _next

CONSTANT
    _TETrace <- _trace

ALIAS
    _expression
=============================================================================
\* Generated on Fri Sep 25 17:14:12 UTC 2026