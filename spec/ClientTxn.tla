----------------------------- MODULE ClientTxn -----------------------------
(***************************************************************************)
(* The client's transaction table and retransmission timers                 *)
(* (Client.PerformTransaction / onRtxTimeout / handleSTUNMessage / Close in *)
(* client.go, internal/client/transaction.go).                              *)
(*                                                                         *)
(* txn[t]  phase    idle | pending | done                                   *)
(*         nsent    transmissions made so far (1..MaxSend)                  *)
(*         ivl      current retransmission interval (ms)                    *)
(*         left     ms until the retransmission timer fires                 *)
(*         failAt   the transmission whose socket write fails (0 = none)    *)
(*         res      none | resp | timeout | closed | writeerr               *)
(*         phase "writing" / "rewriting": the caller / the timer callback   *)
(*         is inside conn.WriteTo (first transmission / a retransmission);  *)
(*         got: what happened meanwhile (none | resp | closed)              *)
(* The network is the environment: a transmission is lost simply by nobody  *)
(* answering it; Response(t) is the arrival of a response carrying t's      *)
(* transaction id at any moment (before, between or after retransmissions,  *)
(* duplicated, late), Foreign is a response with an id nobody waits for.    *)
(* Time is in ms; Advance cannot jump over a timer.                         *)
(***************************************************************************)
EXTENDS Integers, Sequences, FiniteSets, TLC, Json

CONSTANTS Txns,       \* transaction names
          RTO,        \* initial retransmission interval (ms)
          MaxIvl,     \* cap of the interval: 1600 ms
          MaxSend,    \* 7 transmissions in total
          FineTime,   \* TRUE: time also advances by 1 ms and to 1 ms before a timer; FALSE: timer to timer
          SlowWrites, \* BOOLEAN: also explore a first socket write that takes time
          SlowRtx,    \* "no" | "write": also a RETRANSMISSION whose socket write takes time and may fail | "close": and Close is called meanwhile
          IgnoreToo,  \* BOOLEAN: also fire-and-forget transactions (ignoreResult)
          FailAts,    \* which transmission's write may fail: subset of 0..MaxSend (0 = never)
          MaxDepth

VARIABLES txn, closed, out, last
vars == <<txn, closed, out, last>>

Idle == [phase |-> "idle", nsent |-> 0, ivl |-> 0, left |-> 0, failAt |-> 0, res |-> "none", got |-> "none"]
Init == txn = [t \in Txns |-> Idle] /\ closed = FALSE /\ out = {} /\ last = [a |-> "Init"]

Pending(t) == txn[t].phase = "pending"
Min(a, b)  == IF a < b THEN a ELSE b
Done(t, r) == [txn[t] EXCEPT !.phase = "done", !.res = r, !.left = 0]
Ret(t, r)  == [k |-> "ret", t |-> t, res |-> r]     \* PerformTransaction returns
Sent(t, n) == [k |-> "sent", t |-> t, n |-> n]      \* n-th transmission on the wire

\* onRtxTimeout holds the table lock while it is inside conn.WriteTo: PerformTransaction (insert), the inbound path
\* (lookup), Close and the other timers wait for it.  Nothing else happens in the model until the write returns,
\* except that Close may be CALLED (CloseBlocked): it must wait too.
RtxBusy == \E x \in Txns : txn[x].phase = "rewriting"

(* PerformTransaction: insert, write, arm the timer, wait *)
\* (Client.Close fails what is pending; it does not retire the client: a transaction started afterwards runs like any other)
Start(t, fa) ==
  /\ ~RtxBusy
  /\ txn[t].phase = "idle"
  /\ last' = [a |-> "Start", t |-> t, failAt |-> fa]
  /\ IF fa = 1
       THEN \* the first write fails: the caller gets the error and nothing stays behind
            /\ txn' = [txn EXCEPT ![t] = [Idle EXCEPT !.phase = "done", !.res = "writeerr"]]
            /\ out' = {Ret(t, "writeerr")}
       ELSE /\ txn' = [txn EXCEPT ![t] = [phase |-> "pending", nsent |-> 1, ivl |-> RTO, left |-> RTO,
                                          failAt |-> fa, res |-> "none"]]
            /\ out' = {Sent(t, 1)}
  /\ UNCHANGED closed

(* PerformTransaction(ignoreResult = true), e.g. the Refresh with lifetime 0 of a closing relayed socket: the call   *)
(* returns at once without a result; the transaction is in the table, is retransmitted on the same schedule, and    *)
(* ends silently with the first response that carries its id, with the seventh timeout, or with Close               *)
StartIgnore(t) ==
  /\ ~RtxBusy /\ IgnoreToo
  /\ txn[t].phase = "idle"
  /\ last' = [a |-> "StartIgnore", t |-> t]
  /\ txn' = [txn EXCEPT ![t] = [phase |-> "pending", nsent |-> 1, ivl |-> RTO, left |-> RTO,
                                 failAt |-> 0, res |-> "none", ign |-> TRUE]]
  /\ out' = {Sent(t, 1), Ret(t, "ignored")}
  /\ UNCHANGED closed
Ign(t) == "ign" \in DOMAIN txn[t]

(* PerformTransaction whose first socket write is slow: the transaction is already in the table  *)
(* (and can be answered or closed) while the caller is still inside conn.WriteTo                 *)
StartSlow(t) ==
  /\ ~RtxBusy
  /\ txn[t].phase = "idle"
  /\ last' = [a |-> "StartSlow", t |-> t]
  /\ txn' = [txn EXCEPT ![t] = [Idle EXCEPT !.phase = "writing"]]
  /\ out' = {} /\ UNCHANGED closed
\* the write completes: the datagram goes out; the caller arms the timer and waits -- or finds that
\* the response has already arrived / the client has been closed
WriteDone(t) ==
  /\ txn[t].phase = "writing"
  /\ last' = [a |-> "WriteDone", t |-> t]
  /\ IF txn[t].got = "none"
       THEN /\ txn' = [txn EXCEPT ![t] = [phase |-> "pending", nsent |-> 1, ivl |-> RTO, left |-> RTO,
                                          failAt |-> 0, res |-> "none", got |-> "none"]]
            /\ out' = {Sent(t, 1)}
       ELSE /\ txn' = [txn EXCEPT ![t] = [Done(t, txn[t].got) EXCEPT !.nsent = 1]]
            /\ out' = {Sent(t, 1), Ret(t, txn[t].got)}
  /\ UNCHANGED closed

(* the slow write goes on for a while (0.6 s here): whoever holds a result for the caller keeps holding it *)
WriteWait(t) ==
  /\ txn[t].phase = "writing" /\ \A x \in Txns : ~Pending(x)
  /\ last' = [a |-> "WriteWait", t |-> t, d |-> 600]
  /\ UNCHANGED <<txn, closed>> /\ out' = {}

(* handleSTUNMessage: the first response with the matching id completes the transaction *)
\* the client has ONE inbound goroutine; while it is handing a response to a caller that is still
\* inside its socket write it processes nothing else (what arrives meanwhile waits in the socket)
InboundBusy == \E x \in Txns : txn[x].phase = "writing" /\ txn[x].got = "resp"
Response(t) ==
  /\ ~InboundBusy /\ ~RtxBusy
  /\ txn[t].phase # "idle"
  /\ last' = [a |-> "Response", t |-> t]
  /\ IF Pending(t)
       THEN txn' = [txn EXCEPT ![t] = Done(t, "resp")] /\ out' = (IF Ign(t) THEN {} ELSE {Ret(t, "resp")})
       ELSE IF txn[t].phase = "writing" /\ txn[t].got = "none"
         THEN txn' = [txn EXCEPT ![t].got = "resp"] /\ out' = {}      \* delivered when the caller starts to wait
         ELSE UNCHANGED txn /\ out' = {}             \* duplicate / late: ignored
  /\ UNCHANGED closed

(* the response comes from another transport address than the one the request went to (a multi-homed server, a NAT    *)
(* that rewrites the source): a transaction is matched by its id                                                      *)
ResponseOther(t) ==
  /\ ~InboundBusy /\ ~RtxBusy /\ Pending(t)
  /\ last' = [a |-> "ResponseOther", t |-> t]
  /\ txn' = [txn EXCEPT ![t] = Done(t, "resp")] /\ out' = (IF Ign(t) THEN {} ELSE {Ret(t, "resp")})
  /\ UNCHANGED closed

Foreign ==
  /\ ~InboundBusy /\ ~RtxBusy
  /\ last' = [a |-> "Foreign"] /\ UNCHANGED <<txn, closed>> /\ out' = {}

(* an INDICATION that carries the transaction id of t (e.g. a Binding indication used as a keep-alive): not a
   response, completes nothing *)
Indication(t) ==
  /\ ~InboundBusy /\ ~RtxBusy
  /\ last' = [a |-> "Indication", t |-> t] /\ UNCHANGED <<txn, closed>> /\ out' = {}

(* Client.Close: every waiting caller gets an error *)
Close ==
  /\ ~closed /\ ~RtxBusy
  /\ last' = [a |-> "Close"]
  /\ closed' = TRUE
  /\ txn' = [t \in Txns |-> IF Pending(t) THEN Done(t, "closed")
                            ELSE IF txn[t].phase = "writing" /\ txn[t].got = "none" THEN [txn[t] EXCEPT !.got = "closed"]
                            ELSE txn[t]]
  /\ out' = {Ret(t, "closed") : t \in {x \in Txns : Pending(x) /\ ~Ign(x)}}

(* time: onRtxTimeout for every timer that is due *)
Lefts  == {txn[t].left : t \in {x \in Txns : Pending(x)}}
MinLeft == CHOOSE m \in Lefts : \A l \in Lefts : m <= l
Jumps  == IF Lefts = {} THEN {} ELSE IF FineTime THEN {1, MinLeft - 1, MinLeft} \ {0} ELSE {MinLeft}
Fire(t) ==   \* the record of t after its timer fired
  IF txn[t].nsent = MaxSend THEN Done(t, "timeout")
  ELSE IF txn[t].failAt = txn[t].nsent + 1 THEN Done(t, "writeerr")
  ELSE [txn[t] EXCEPT !.nsent = @ + 1, !.ivl = Min(2 * @, MaxIvl), !.left = Min(2 * txn[t].ivl, MaxIvl)]
Advance(d) ==
  /\ ~RtxBusy
  /\ Lefts # {} /\ d >= 1 /\ d <= MinLeft
  /\ last' = [a |-> "Advance", d |-> d]
  /\ LET due == {t \in Txns : Pending(t) /\ txn[t].left = d} IN
     /\ txn' = [t \in Txns |-> IF t \in due THEN Fire(t)
                              ELSE IF Pending(t) THEN [txn[t] EXCEPT !.left = @ - d] ELSE txn[t]]
     /\ out' = {Ret(t, Fire(t).res) : t \in {x \in due : Fire(x).phase = "done" /\ ~Ign(x)}}
               \cup {Sent(t, Fire(t).nsent) : t \in {x \in due : Fire(x).phase = "pending"}}
  /\ UNCHANGED closed

(* a retransmission whose socket write takes time.  The timer of exactly one transaction fires (not its last one), *)
(* onRtxTimeout takes the table lock and enters conn.WriteTo -- and stays there.                                    *)
RtxSlow(t) ==
  /\ ~RtxBusy /\ Pending(t) /\ ~Ign(t) /\ txn[t].left = MinLeft /\ txn[t].nsent < MaxSend /\ txn[t].failAt = 0
  /\ \A x \in Txns \ {t} : Pending(x) => txn[x].left > MinLeft
  /\ last' = [a |-> "RtxSlow", t |-> t, d |-> MinLeft]
  /\ txn' = [x \in Txns |-> IF x = t THEN [phase |-> "rewriting", nsent |-> txn[t].nsent, ivl |-> txn[t].ivl, left |-> 0, failAt |-> 0,
                                           res |-> "none", got |-> "none"]
                            ELSE IF Pending(x) THEN [txn[x] EXCEPT !.left = @ - MinLeft] ELSE txn[x]]
  /\ out' = {} /\ UNCHANGED closed
(* Client.Close is called meanwhile: it waits for the table lock, nobody is told anything yet *)
CloseBlocked ==
  /\ ~closed /\ \E t \in Txns : txn[t].phase = "rewriting" /\ txn[t].got = "none"
  /\ last' = [a |-> "CloseBlocked"]
  /\ txn' = [x \in Txns |-> IF txn[x].phase = "rewriting" THEN [txn[x] EXCEPT !.got = "closed"] ELSE txn[x]]
  /\ out' = {} /\ UNCHANGED closed
(* the write returns (ok or with an error); then the waiting Close, if any, goes ahead *)
RtxWriteDone(t, ok) ==
  /\ txn[t].phase = "rewriting"
  /\ last' = [a |-> "RtxWriteDone", t |-> t, ok |-> ok]
  /\ LET after == IF ok THEN [phase |-> "pending", nsent |-> txn[t].nsent + 1, ivl |-> Min(2 * txn[t].ivl, MaxIvl),
                                  left |-> Min(2 * txn[t].ivl, MaxIvl), failAt |-> 0, res |-> "none"]
                       ELSE [phase |-> "done", nsent |-> txn[t].nsent, ivl |-> txn[t].ivl, left |-> 0, failAt |-> 0, res |-> "writeerr"]
         closing == txn[t].got = "closed"
         mid == [txn EXCEPT ![t] = after]
         pend == {x \in Txns : mid[x].phase = "pending"}
     IN /\ closed' = (closed \/ closing)
        /\ txn' = IF closing THEN [x \in Txns |-> IF x \in pend THEN [mid[x] EXCEPT !.phase = "done", !.res = "closed", !.left = 0] ELSE mid[x]]
                  ELSE mid
        /\ out' = (IF ok THEN {Sent(t, after.nsent)} ELSE {Ret(t, "writeerr")})
                  \cup (IF closing THEN {Ret(x, "closed") : x \in pend} ELSE {})

Next ==
  \/ \E t \in Txns, fa \in FailAts : Start(t, fa)
  \/ \E t \in Txns : Response(t) \/ ResponseOther(t) \/ StartIgnore(t)
  \/ (SlowWrites /\ \E t \in Txns : StartSlow(t) \/ WriteDone(t) \/ WriteWait(t))
  \/ Foreign \/ Close \/ (\E t \in Txns : Indication(t))
  \/ \E d \in Jumps : Advance(d)
  \/ (SlowRtx # "no" /\ ((\E t \in Txns : RtxSlow(t)) \/ (\E t \in Txns, ok \in BOOLEAN : RtxWriteDone(t, ok))))
  \/ (SlowRtx = "close" /\ CloseBlocked)   \* (bound to the code by the real-time driver: a goroutine waiting for a mutex is invisible to the virtual clock)
Spec == Init /\ [][Next]_vars
\* liveness is checked under fairness of time (and nothing else): a pending transaction ends
FairSpec == Spec /\ WF_vars(\E d \in Jumps : Advance(d)) /\ WF_vars(\E t \in Txns : WriteDone(t))
                 /\ WF_vars(\E t \in Txns, ok \in BOOLEAN : RtxWriteDone(t, ok))
View == <<txn, closed>>
DepthBound == TLCGet("level") <= MaxDepth

(* C12 *)
\* exactly once: a result, once given, never changes; each step returns at most once per transaction
C12_ExactlyOnce ==
  [][\A t \in Txns : /\ (txn[t].res # "none" => txn'[t].res = txn[t].res)
                     /\ Cardinality({o \in out' : o.k = "ret" /\ o.t = t}) <= 1
                     /\ (~Ign(t) /\ last'.a # "StartIgnore") =>
                           ((txn[t].res = "none" /\ txn'[t].res # "none") <=> \E o \in out' : o.k = "ret" /\ o.t = t)]_vars
\* only its own response completes a transaction with success
C12_OwnResponse ==
  [][\A o \in out' : (o.k = "ret" /\ o.res = "resp") =>
        \/ (last'.a \in {"Response", "ResponseOther"} /\ last'.t = o.t)
        \/ (last'.a = "WriteDone" /\ last'.t = o.t /\ txn[o.t].got = "resp")]_vars   \* it arrived during the write
\* the schedule: at most MaxSend transmissions, interval doubles and is capped
C12_Schedule ==
  \A t \in Txns : Pending(t) => /\ txn[t].nsent \in 1..MaxSend
                                /\ txn[t].ivl <= MaxIvl /\ txn[t].left \in 1..txn[t].ivl
\* nothing is left behind: a finished transaction has no timer
C12_NothingLeft == \A t \in Txns : txn[t].phase = "done" => txn[t].left = 0
\* entries of the transaction table
InTable(t) == Pending(t) \/ (txn[t].phase = "writing" /\ txn[t].got = "none") \/ txn[t].phase = "rewriting"
\* termination (FairSpec): every pending transaction finishes
C12_Terminates == \A t \in Txns : (txn[t].phase \in {"pending", "writing", "rewriting"}) ~> (txn[t].phase = "done")

ASSUME PrintT("META " \o ToJson([Sys |-> "clienttxn", Extra |-> [RTO |-> ToString(RTO)]]))
EmitEdge ==
  PrintT("EDGE " \o ToJson([s |-> [txn |-> txn, closed |-> closed], a |-> last', o |-> out',
                            t |-> [txn |-> txn', closed |-> closed']]))
=============================================================================
