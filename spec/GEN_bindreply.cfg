SPECIFICATION Spec
VIEW View
CHECK_DEADLOCK FALSE
CONSTANTS
  Streams <- MCBindStreams
  Mode = "bindreply"
ACTION_CONSTRAINT EmitEdge
