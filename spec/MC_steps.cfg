SPECIFICATION Spec
INVARIANTS NoCrash NoDeadlock LocksBalanced Answered
CHECK_DEADLOCK FALSE
