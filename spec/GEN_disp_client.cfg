SPECIFICATION Spec
VIEW View
CHECK_DEADLOCK FALSE
CONSTANTS
  Mode = "client"
  Shapes <- MCClient
ACTION_CONSTRAINT EmitEdge
