------------------------------ MODULE TurnLife ------------------------------
(***************************************************************************)
(* Teardown causes and the resource / lifecycle-event ledger of the relay   *)
(* server (C15), on top of TurnServer.tla:                                  *)
(*   RelayError(c)  the allocation's relay socket fails (read error):       *)
(*                  packetConnHandler -> Manager.DeleteAllocation           *)
(*   ServerClose    Server.Close: listeners closed, every manager closed    *)
(* besides the causes TurnServer already has (lifetime expiry, Refresh 0).  *)
(* The ledger is not a variable: what must be created, released and         *)
(* announced in a step is a function of the step's two states (EvDiff),     *)
(* printed with every edge and compared by the harness with the lifecycle   *)
(* callbacks the real server made and with the relay sockets the harness    *)
(* handed out.                                                              *)
(***************************************************************************)
EXTENDS TurnServer, Json

CONSTANTS MaxDepth

Down == \E c \in Clients : "down" \in DOMAIN alloc[c]
DownAlloc == [live |-> FALSE, down |-> TRUE]

RelayError(c) ==
  /\ ~Down /\ Live(c)
  /\ last' = [a |-> "RelayError", c |-> c]
  /\ alloc' = [alloc EXCEPT ![c] = NoAlloc]
  /\ perm'  = [perm EXCEPT ![c] = NoPerms]
  /\ chan'  = [chan EXCEPT ![c] = NoChans]
  /\ UNCHANGED <<resv, veto>>
  /\ out' = {}

ServerClose ==
  /\ ~Down
  /\ last' = [a |-> "ServerClose"]
  /\ alloc' = [c \in Clients |-> DownAlloc]
  /\ perm'  = [c \in Clients |-> NoPerms]
  /\ chan'  = [c \in Clients |-> NoChans]
  /\ resv'  = [c \in Clients |-> 0]
  /\ UNCHANGED veto
  /\ out' = {}

LifeNext == (~Down /\ Next) \/ (\E c \in Clients : RelayError(c)) \/ ServerClose
LifeSpec == Init /\ [][LifeNext]_vars
DepthBound == TLCGet("level") <= MaxDepth

\* lifecycle events of a step: one created / deleted event per entry that appears / disappears
IsLive(a, c) == a[c].live
EvDiff ==
  {[kind |-> "alloc+", key |-> <<c>>] : c \in {x \in Clients : ~IsLive(alloc, x) /\ IsLive(alloc', x)}}
  \cup {[kind |-> "alloc-", key |-> <<c>>] : c \in {x \in Clients : IsLive(alloc, x) /\ ~IsLive(alloc', x)}}
  \cup {[kind |-> "perm+", key |-> <<c, i>>] : <<c, i>> \in {y \in Clients \X PeerIPs : perm[y[1]][y[2]] = 0 /\ perm'[y[1]][y[2]] > 0}}
  \cup {[kind |-> "perm-", key |-> <<c, i>>] : <<c, i>> \in {y \in Clients \X PeerIPs : perm[y[1]][y[2]] > 0 /\ perm'[y[1]][y[2]] = 0}}
  \cup {[kind |-> "chan+", key |-> <<c, n>>] : <<c, n>> \in {y \in Clients \X ChanNums : ~chan[y[1]][y[2]].bound /\ chan'[y[1]][y[2]].bound}}
  \cup {[kind |-> "chan-", key |-> <<c, n>>] : <<c, n>> \in {y \in Clients \X ChanNums : chan[y[1]][y[2]].bound /\ ~chan'[y[1]][y[2]].bound}}

\* C15 on the specification: at every state the ledger balances by construction of EvDiff; what is
\* checked here is that nothing outlives its allocation and that nothing is left after ServerClose
C15_NothingAfterClose == Down => \A c \in Clients : perm[c] = NoPerms /\ chan[c] = NoChans
C15_NoOrphans == \A c \in Clients : ~alloc[c].live => perm[c] = NoPerms /\ chan[c] = NoChans

MCFam       == [i \in PeerIPs |-> IF i \in {"X", "Y"} THEN 6 ELSE 4]
MCListenFam == [c \in Clients |-> IF c = "c6" THEN 6 ELSE 4]
MCNoDenied  == {}
MCLifeAbsent0 == {-1, 0}
MCLenSmall  == {-1}
MCPermSeqsAB == {<<"A">>, <<"B">>, <<"A", "B">>}
ASSUME PrintT("META " \o ToJson([DefaultLife |-> DefaultLife, PermTO |-> PermTO, ChanTO |-> ChanTO,
                                 MaxLife |-> MaxLife, Strict |-> Strict, Denied |-> Denied, Fam |-> Fam,
                                 ListenFam |-> ListenFam, Clients |-> Clients, Users |-> Users,
                                 PeerPorts |-> PeerPorts, QuotaDenied |-> QuotaDenied, InboundMTU |-> InboundMTU, Extra |-> [ledger |-> "yes"]]))
EmitEdge ==
  PrintT("EDGE " \o ToJson([s |-> <<alloc, perm, chan, resv>>, a |-> last', o |-> out', ev |-> EvDiff,
                            t |-> <<alloc', perm', chan', resv'>>]))
=============================================================================
