SPECIFICATION Spec
VIEW View
CHECK_DEADLOCK FALSE
CONSTANTS
  MinPort = 61100
  MaxPort = 61101
  MaxRetries = 2
  Kinds = {"range", "static", "none"}
  Protos = {"udp", "tcp"}
  Fams = {4, 6}
  ReqPorts = {61100, 61103}
  Classes = {"lo", "hi", "mid", "hit"}
ACTION_CONSTRAINT EmitEdge
