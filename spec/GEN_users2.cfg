\* GEN_users2 -- generated by mkcfg.py; two users on one 5-tuple, nobody over quota: a second user's Allocate on a 5-tuple that holds an allocation is a mismatch (437), never a second allocation
SPECIFICATION Spec
VIEW View
CONSTANTS
  Clients = {"c1"}
  Users = {"u1", "u2"}
  PeerIPs = {"A"}
  PeerPorts = {1}
  Fam <- MCFam
  ListenFam <- MCListenFam
  Strict = FALSE
  ReqFams = {0}
  ChanNums = {16384}
  LifeReqs <- MCLifeAbsent0
  Txids = {"t1", "t2"}
  Pays = {"p"}
  Lens <- MCLenSmall
  InboundMTU = 1600
  PermSeqs <- MCPermSeqs1
  DefaultLife = 5
  PermTO = 2
  ChanTO = 3
  MaxLife = 3600
  Denied <- MCNoDenied
  Vetoable = {}
  Toks = {"none"}
  ResvTO = 30
  QuotaDenied = {}
  MaxDepth = 4
CONSTRAINT DepthBound
ACTION_CONSTRAINT EmitEdge
