----------------------------- MODULE ClientConn -----------------------------
(***************************************************************************)
(* The client's relayed UDP socket (internal/client/udp_conn.go,            *)
(* binding.go, permission.go) as seen from its two sides:                   *)
(*   the WIRE between client and server (what the server receives and what  *)
(*   it answers), and the net.PacketConn API (WriteTo / ReadFrom / Close).  *)
(*                                                                         *)
(* permOK    peer IPs for which a CreatePermission has been answered with   *)
(*           success                                                        *)
(* assigned  peer -> channel number the client chose for it (first          *)
(*           ChannelBind request naming the peer)                           *)
(* chanOK    {<<n, peer>>} bindings the server has confirmed                *)
(* cpReq / cbReq  outstanding requests by transaction id                    *)
(* writes    payloads handed to WriteTo and not yet seen on the wire        *)
(* queue     payloads the server relayed to the client, not yet read        *)
(*                                                                         *)
(* Every action is one observable event; the trace specification           *)
(* (TraceClientConn.tla) replays recorded executions of the real client     *)
(* through these actions, so a recorded event whose guard is false is a     *)
(* violation of C13.  The same actions, driven by a small environment,      *)
(* are model-checked here for the invariants.                               *)
(***************************************************************************)
EXTENDS Integers, Sequences, FiniteSets, TLC

CONSTANTS QueueCap    \* capacity of the read queue (1024 in the code)

\* a peer transport address is a record [ip |-> "A", port |-> 1]
IPOf(p) == p.ip

VARIABLES permOK, assigned, chanOK, cpReq, cbReq, writes, queue, closed
cvars == <<permOK, assigned, chanOK, cpReq, cbReq, writes, queue, closed>>

ValidChan(n) == n >= 16384 /\ n <= 32767

CInit ==
  /\ permOK = {} /\ assigned = <<>> /\ chanOK = {} /\ cpReq = <<>> /\ cbReq = <<>>
  /\ writes = <<>> /\ queue = <<>> /\ closed = FALSE

Dom(f) == DOMAIN f
Put(f, k, v) == [x \in Dom(f) \cup {k} |-> IF x = k THEN v ELSE f[x]]
Del(f, k) == [x \in Dom(f) \ {k} |-> f[x]]

(* the application calls WriteTo(payload, peer) *)
WriteCall(w, p, pay) ==
  /\ w \notin Dom(writes)
  /\ writes' = Put(writes, w, [p |-> p, pay |-> pay, sent |-> FALSE, ret |-> "none"])
  /\ UNCHANGED <<permOK, assigned, chanOK, cpReq, cbReq, queue, closed>>

(* CreatePermission request seen by the server *)
CPReq(tx, ips) ==
  /\ tx \notin Dom(cpReq)
  /\ cpReq' = Put(cpReq, tx, ips)
  /\ UNCHANGED <<permOK, assigned, chanOK, cbReq, writes, queue, closed>>

(* the server's answer; r = "ok" installs the permission *)
CPResp(tx, r) ==
  /\ tx \in Dom(cpReq)
  /\ permOK' = IF r = "ok" THEN permOK \cup cpReq[tx] ELSE permOK
  /\ UNCHANGED <<assigned, chanOK, cpReq, cbReq, writes, queue, closed>>

(* ChannelBind request seen by the server: the number is in range, and the client keeps the   *)
(* peer <-> number map injective                                                              *)
CBReq(tx, n, p) ==
  /\ tx \notin Dom(cbReq)
  /\ ValidChan(n)
  /\ (p \in Dom(assigned) => assigned[p] = n)
  /\ \A q \in Dom(assigned) : q # p => assigned[q] # n
  /\ assigned' = Put(assigned, p, n)
  /\ cbReq' = Put(cbReq, tx, <<n, p>>)
  /\ UNCHANGED <<permOK, chanOK, cpReq, writes, queue, closed>>

CBResp(tx, r) ==
  /\ tx \in Dom(cbReq)
  /\ chanOK' = IF r = "ok" THEN chanOK \cup {cbReq[tx]} ELSE chanOK
  \* a successful ChannelBind also installs the permission at the server
  /\ permOK' = IF r = "ok" THEN permOK \cup {IPOf(cbReq[tx][2])} ELSE permOK
  /\ UNCHANGED <<assigned, cpReq, cbReq, writes, queue, closed>>

(* a Send indication toward p seen by the server: only after a CreatePermission success for   *)
(* p's IP, and it carries a payload some WriteTo to p submitted                                *)
SendInd(w, p, pay) ==
  /\ IPOf(p) \in permOK
  /\ w \in Dom(writes) /\ writes[w].p = p /\ writes[w].pay = pay /\ ~writes[w].sent
  /\ writes' = [writes EXCEPT ![w].sent = TRUE]
  /\ UNCHANGED <<permOK, assigned, chanOK, cpReq, cbReq, queue, closed>>

(* ChannelData on n seen by the server: only after the server confirmed n for exactly that peer *)
ChanData(w, n, pay) ==
  /\ w \in Dom(writes) /\ writes[w].pay = pay /\ ~writes[w].sent
  /\ <<n, writes[w].p>> \in chanOK
  /\ writes' = [writes EXCEPT ![w].sent = TRUE]
  /\ UNCHANGED <<permOK, assigned, chanOK, cpReq, cbReq, queue, closed>>

(* WriteTo returns.  The wire is observed at the server, i.e. possibly after the call has      *)
(* returned, so the obligation "a successful WriteTo put its payload on the wire, once" is     *)
(* checked when the execution has settled (Settled).                                            *)
WriteRet(w, ok) ==
  /\ w \in Dom(writes) /\ writes[w].ret = "none"
  /\ writes' = [writes EXCEPT ![w].ret = IF ok THEN "ok" ELSE "err"]
  /\ UNCHANGED <<permOK, assigned, chanOK, cpReq, cbReq, queue, closed>>
Settled == \A w \in Dom(writes) : writes[w].ret = "ok" => writes[w].sent

(* the server relays a peer's datagram: Data indication naming p, or ChannelData on n *)
Enq(pay, p) == IF Len(queue) < QueueCap THEN Append(queue, <<pay, p>>) ELSE queue   \* dropped only when full
InjectInd(p, pay) ==
  /\ queue' = IF closed THEN queue ELSE Enq(pay, p)
  /\ UNCHANGED <<permOK, assigned, chanOK, cpReq, cbReq, writes, closed>>
PeerOfChan(n) == {p \in Dom(assigned) : assigned[p] = n}
InjectChan(n, pay) ==
  \* ChannelData on a number the client never chose is discarded, it is not data
  /\ queue' = IF closed \/ PeerOfChan(n) = {} THEN queue ELSE Enq(pay, CHOOSE p \in PeerOfChan(n) : TRUE)
  /\ UNCHANGED <<permOK, assigned, chanOK, cpReq, cbReq, writes, closed>>

(* ReadFrom returns the oldest relayed payload with the peer it came from *)
Read(pay, from) ==
  /\ queue # <<>> /\ Head(queue) = <<pay, from>>
  /\ queue' = Tail(queue)
  /\ UNCHANGED <<permOK, assigned, chanOK, cpReq, cbReq, writes, closed>>
(* ReadFrom returns a timeout / closed error only when nothing is queued *)
ReadErr ==
  /\ queue = <<>> \/ closed
  /\ UNCHANGED cvars
Close ==
  /\ closed' = TRUE
  /\ UNCHANGED <<permOK, assigned, chanOK, cpReq, cbReq, writes, queue>>

(* invariants of the design *)
C13_Injective == \A p, q \in Dom(assigned) : assigned[p] = assigned[q] => p = q
C13_Range     == \A p \in Dom(assigned) : ValidChan(assigned[p])
C13_Confirmed == \A b \in chanOK : b[2] \in Dom(assigned) /\ assigned[b[2]] = b[1]
C13_QueueBound == Len(queue) <= QueueCap
=============================================================================
