SPECIFICATION Spec
VIEW View
CHECK_DEADLOCK FALSE
CONSTANTS
  Txns = {"t1", "t2"}
  RTO = 500
  MaxIvl = 1600
  MaxSend = 7
  FineTime = TRUE
  SlowWrites = FALSE
  SlowRtx = "no"
  IgnoreToo = TRUE
  FailAts = {0, 1, 2, 7}
  MaxDepth = 6
CONSTRAINT DepthBound
ACTION_CONSTRAINT EmitEdge
