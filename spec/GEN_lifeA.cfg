SPECIFICATION LifeSpec
VIEW View
CHECK_DEADLOCK FALSE
CONSTANTS
  Clients = {"c1"}
  Users = {"u1"}
  PeerIPs = {"A", "B"}
  PeerPorts = {1, 2}
  Fam <- MCFam
  ListenFam <- MCListenFam
  Strict = FALSE
  ReqFams = {0}
  ChanNums = {16384, 16385, 16386}
  LifeReqs <- MCLifeAbsent0
  Txids = {"t1"}
  Pays = {"p"}
  Lens <- MCLenSmall
  InboundMTU = 1600
  PermSeqs <- MCPermSeqsAB
  DefaultLife = 5
  PermTO = 2
  ChanTO = 3
  MaxLife = 3600
  Denied <- MCNoDenied
  Vetoable = {}
  Toks = {"none"}
  ResvTO = 30
  QuotaDenied = {}
  MaxDepth = 6
CONSTRAINT DepthBound
ACTION_CONSTRAINT EmitEdge
