------------------------------ MODULE MC_auth ------------------------------
EXTENDS TurnAuth, Json
CONSTANTS MaxDepth
MCFam       == [i \in PeerIPs |-> IF i \in {"X", "Y"} THEN 6 ELSE 4]
MCListenFam == [c \in Clients |-> IF c = "c6" THEN 6 ELSE 4]
MCNoDenied  == {}
MCPermSeqs1 == {<<i>> : i \in PeerIPs}
MCLifeAbsent0 == {-1, 0}
MCLenSmall  == {-1}
MCPermSeqsA == {<<"A">>}
MCCredKinds == {"noMI"} \cup NonceDefects \cup OtherDefects
MCCredKindsAnon == {"noMI", "staleNonce", "ghostEmptyKey", "wrongPw", "noUser"}
MCMethods   == {"Allocate", "Refresh", "CreatePermission", "ChannelBind", "Connect", "ConnectionBind"}
DepthBound  == TLCGet("level") <= MaxDepth
ASSUME PrintT("META " \o ToJson([DefaultLife |-> DefaultLife, PermTO |-> PermTO, ChanTO |-> ChanTO,
                                 MaxLife |-> MaxLife, Strict |-> Strict, Denied |-> Denied, Fam |-> Fam,
                                 ListenFam |-> ListenFam, Clients |-> Clients, Users |-> Users,
                                 PeerPorts |-> PeerPorts, QuotaDenied |-> QuotaDenied, InboundMTU |-> InboundMTU,
                                 Extra |-> [auth |-> IF HasAuth THEN "yes" ELSE "no"]]))
EmitEdge ==
  PrintT("EDGE " \o ToJson([s |-> <<alloc, perm, chan, resv>>, a |-> last', o |-> out',
                            t |-> <<alloc', perm', chan', resv'>>]))
=============================================================================
