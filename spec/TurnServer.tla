---------------------------- MODULE TurnServer ----------------------------
(***************************************************************************)
(* Request-atomic model of the pion/turn relay server (UDP allocations).   *)
(*                                                                         *)
(* One action per request handler / relay-socket read / time advance, the  *)
(* checks inside an action in the order of the Go handler it transcribes   *)
(* (internal/server/turn.go, internal/allocation/allocation*.go).          *)
(* Variables are the abstract content of the Go tables:                    *)
(*   alloc[c]   Manager.allocations[fingerprint(5-tuple c)]                *)
(*   perm[c][i] Allocation.permissions[i]  (remaining seconds, 0 = none)   *)
(*   chan[c][n] Allocation.channelBindings (number n)                      *)
(* Timers are count-downs; there is no global clock.  Advance(d) cannot    *)
(* jump over a deadline; what reaches 0 expires in the same step.          *)
(* out  = what the server emitted in the last step (hidden by VIEW)        *)
(* last = label and arguments of the last step     (hidden by VIEW)        *)
(***************************************************************************)
EXTENDS Integers, Sequences, FiniteSets, TLC

CONSTANTS
  Clients,      \* client 5-tuples (strings)
  Users,        \* user names whose credentials are valid (strings)
  PeerIPs,      \* peer IP identifiers (strings)
  PeerPorts,    \* peer ports (small integers)
  Fam,          \* [PeerIPs -> {4, 6}] address family of each peer IP
  ListenFam,    \* [Clients -> {4, 6}] family of the listener address the client talks to
  Strict,       \* BOOLEAN: ServerConfig.StrictAddressFamily
  ReqFams,      \* REQUESTED-ADDRESS-FAMILY values tried: 0 = absent, 4, 6, other = unsupported
  ChanNums,     \* channel numbers tried (valid and invalid)
  LifeReqs,     \* LIFETIME values tried, -1 = attribute absent
  Txids,        \* transaction ids used for Allocate (the response cache key)
  Pays,         \* payload content classes
  Lens,         \* payload lengths tried, -1 = a small length chosen by the harness
  InboundMTU,   \* ServerConfig.InboundMTU (bytes): a client message is processed iff its wire size is below it
  PermSeqs,     \* sequences of peer IPs used in one CreatePermission
  DefaultLife,  \* ServerConfig.AllocationLifetime (seconds)
  PermTO,       \* ServerConfig.PermissionTimeout
  ChanTO,       \* ServerConfig.ChannelBindTimeout
  MaxLife,      \* maximumAllocationLifetime = 3600
  Denied,       \* {<<client, peerIP>>} refused by the operator's permission handler (when the server starts)
  Vetoable,     \* {<<client, peerIP>>} whose verdict the operator may change at run time (a block list)
  Toks,         \* EVEN-PORT / RESERVATION-TOKEN classes tried in Allocate: "none", "even" (EVEN-PORT), "bogus"
                \* (a token nobody issued), or a client name (the token most recently issued to that client)
  ResvTO,       \* lifetime of a reservation: 30 s
  QuotaDenied   \* users the operator's quota handler refuses a (new) allocation: 486

VARIABLES alloc, perm, chan, resv, veto, out, last

\* resv[c]: seconds left of the reservation (relayed port + 1) made by c's last EVEN-PORT allocation, 0 = none
\* veto: the pairs the operator's permission handler refuses NOW.  The handler is asked on every CreatePermission and
\* every ChannelBind (a refreshing one included); what was installed before a verdict changed lives out its time.
vars  == <<alloc, perm, chan, resv, veto, out, last>>
state == <<alloc, perm, chan, resv, veto>>

Peers    == PeerIPs \X PeerPorts
StreamClients == Clients \cap {"s1", "s2", "sx", "sy"}   \* (sx: the address of s1 once more, connected to a second stream listener; sy: connected to another local IP of the same, wildcard, listener)
NoAlloc  == [live |-> FALSE]
NoChan   == [bound |-> FALSE]
NoPerms  == [i \in PeerIPs |-> 0]
NoChans  == [n \in ChanNums |-> NoChan]

ValidChan(n) == n >= 16384 /\ n <= 32767          \* 0x4000 .. 0x7FFF

\* allocationLifeTime(): the requested value when present and below one hour, else the default
Granted(lr) == IF lr >= 0 /\ lr < MaxLife THEN lr ELSE DefaultLife

\* defaultAllocationAddressFamily() and the REQUESTED-ADDRESS-FAMILY checks
FamOf(c, rf) == IF rf = 0 THEN (IF Strict THEN 4 ELSE ListenFam[c]) ELSE rf

Live(c)        == alloc[c].live
Owns(c, u)     == Live(c) /\ alloc[c].user = u    \* GetAllocationForUserID
ChanOfPeer(c, p) == {n \in ChanNums : chan[c][n].bound /\ chan[c][n].peer = p}

Init ==
  /\ alloc = [c \in Clients |-> NoAlloc]
  /\ perm  = [c \in Clients |-> NoPerms]
  /\ chan  = [c \in Clients |-> NoChans]
  /\ resv  = [c \in Clients |-> 0]
  /\ veto  = Denied
  /\ out   = {}
  /\ last  = [a |-> "Init"]

Resp(c, m, cls, code) == [k |-> "resp", to |-> c, m |-> m, cls |-> cls, code |-> code]
Ok(c, m)              == Resp(c, m, "ok", 0)
\* code 0 in an error response = the properties do not pin the code
Err(c, m, code)       == Resp(c, m, "err", code)

---------------------------------------------------------------------------
(* Binding: answered to the sender with its own address, no state.        *)
Binding(c) ==
  /\ UNCHANGED state
  /\ out' = {[k |-> "resp", to |-> c, m |-> "Binding", cls |-> "ok", code |-> 0, mapped |-> c]}
  /\ last' = [a |-> "Binding", c |-> c]

\* users named q1, q2 may hold one allocation at a time (the operator's quota handler counts them); the quota
\* is consulted only for a NEW allocation: a retransmission and a second Allocate on a 5-tuple are answered first
QuotaOne == Users \cap {"q1", "q2"}
(* handleAllocateRequest, authenticated as u.  tk: "none" | "even" (EVEN-PORT) | "bogus" | a client *)
(* name d (RESERVATION-TOKEN issued to d).  alloc[c].port is the class of the relayed port:        *)
(* <<"any">>, <<"even">> (it reserved the next port) or <<"next", d>> (the port d reserved).        *)
NextHeld(d) == \E x \in Clients : alloc[x].live /\ alloc[x].port = <<"next", d>>
\* environment restriction (not code behaviour): a client asks for EVEN-PORT again only when its
\* earlier reservation is gone, so that "the token of d" names one port
EvenOK(c) == resv[c] = 0 /\ ~NextHeld(c)
Allocate(c, u, lr, tx, rf, tk) ==
  /\ tk = "even" => EvenOK(c)
  /\ last' = [a |-> "Allocate", c |-> c, u |-> u, lr |-> lr, tx |-> tx, rf |-> rf, tk |-> tk]
  /\ IF Live(c)
       THEN /\ UNCHANGED state
            /\ out' = IF alloc[c].tx = tx
                        THEN \* retransmission: the cached success again (token included), nothing created
                             {[k |-> "resp", to |-> c, m |-> "Allocate", cls |-> "ok", code |-> 0,
                               mapped |-> c, relay |-> c, life |-> -2, port |-> alloc[c].port]}
                        ELSE {Err(c, "Allocate", 437)}
       ELSE IF tk = "bogus" \/ (tk \in Clients /\ resv[tk] = 0)
         THEN UNCHANGED state /\ out' = {Err(c, "Allocate", 508)}        \* unknown / expired token
         ELSE IF rf \notin {0, 4, 6}
           THEN UNCHANGED state /\ out' = {Err(c, "Allocate", 440)}
           ELSE IF tk \in Clients /\ rf # 0
             THEN UNCHANGED state /\ out' = {Err(c, "Allocate", 400)}    \* token and family are mutually exclusive
             ELSE IF u \in QuotaDenied \/ (u \in QuotaOne /\ \E x \in Clients : alloc[x].live /\ alloc[x].user = u)
               THEN UNCHANGED state /\ out' = {Err(c, "Allocate", 486)}  \* allocation quota reached
             ELSE IF Granted(lr) = 0 \/ (tk \in Clients /\ NextHeld(tk))
               THEN \* zero lifetime, or the reserved port is in use: 508, nothing created
                    UNCHANGED state /\ out' = {Err(c, "Allocate", 0)}
               ELSE LET port == IF tk = "even" THEN <<"even">> ELSE IF tk \in Clients THEN <<"next", tk>> ELSE <<"any">> IN
                    /\ alloc' = [alloc EXCEPT ![c] =
                         [live |-> TRUE, user |-> u, fam |-> FamOf(c, rf), rem |-> Granted(lr), tx |-> tx, port |-> port]]
                    /\ resv' = IF tk = "even" THEN [resv EXCEPT ![c] = ResvTO] ELSE resv
                    /\ UNCHANGED <<perm, chan, veto>>
                    /\ out' = {[k |-> "resp", to |-> c, m |-> "Allocate", cls |-> "ok", code |-> 0,
                                mapped |-> c, relay |-> c, life |-> Granted(lr), port |-> port]}

(* An Allocate (no LIFETIME, family or token) that succeeds at the server while the success response cannot be    *)
(* sent: the write on the listening socket fails once.  The allocation exists; the client, which saw nothing,    *)
(* retransmits -- and Allocate above answers the retransmission (same transaction id) with the same success.     *)
AllocateLostWrite(c, u, tx) ==
  /\ c \notin StreamClients   \* (a datagram listener: one write, one datagram)
  /\ ~Live(c) /\ u \notin QuotaDenied /\ ~(u \in QuotaOne /\ \E x \in Clients : alloc[x].live /\ alloc[x].user = u)
  /\ last' = [a |-> "AllocateLostWrite", c |-> c, u |-> u, tx |-> tx]
  /\ alloc' = [alloc EXCEPT ![c] =
       [live |-> TRUE, user |-> u, fam |-> FamOf(c, 0), rem |-> DefaultLife, tx |-> tx, port |-> <<"any">>]]
  /\ UNCHANGED <<perm, chan, resv, veto>>
  /\ out' = {}

(* An Allocate (no LIFETIME, family or token) for which the relay address generator has no port (range exhausted,   *)
(* bind error): answered with an error, and nothing is left behind -- the next Allocate of the 5-tuple starts    *)
(* from scratch (it is not answered 437, and nothing is counted).                                               *)
AllocateNoPort(c, u, tx) ==
  /\ ~Live(c) /\ u \notin QuotaDenied /\ ~(u \in QuotaOne /\ \E x \in Clients : alloc[x].live /\ alloc[x].user = u)
  /\ last' = [a |-> "AllocateNoPort", c |-> c, u |-> u, tx |-> tx]
  /\ UNCHANGED state
  /\ out' = {Err(c, "Allocate", 0)}

(* handleRefreshRequest.  rf: REQUESTED-ADDRESS-FAMILY (0 = absent).        *)
Refresh(c, u, lr, rf) ==
  /\ last' = [a |-> "Refresh", c |-> c, u |-> u, lr |-> lr, rf |-> rf]
  /\ IF ~Owns(c, u)
       THEN UNCHANGED state /\ out' = {}      \* dropped without an answer
       ELSE IF rf # 0 /\ rf # alloc[c].fam
         THEN UNCHANGED state /\ out' = {Err(c, "Refresh", 443)}
         ELSE IF Granted(lr) = 0
           THEN /\ alloc' = [alloc EXCEPT ![c] = NoAlloc]
                /\ perm'  = [perm EXCEPT ![c] = NoPerms]
                /\ chan'  = [chan EXCEPT ![c] = NoChans]
                /\ UNCHANGED <<resv, veto>>
                /\ out'   = {[k |-> "resp", to |-> c, m |-> "Refresh", cls |-> "ok", code |-> 0, life |-> 0]}
           ELSE /\ alloc' = [alloc EXCEPT ![c].rem = Granted(lr)]
                /\ UNCHANGED <<perm, chan, resv, veto>>
                /\ out'   = {[k |-> "resp", to |-> c, m |-> "Refresh", cls |-> "ok", code |-> 0,
                              life |-> Granted(lr)]}

(* handleCreatePermissionRequest with the XOR-PEER-ADDRESS attributes in   *)
(* order ips.  Peers before the first refused one are installed although   *)
(* the answer is an error (PartialInstallBeforeRefusal, a named deviation  *)
(* the properties are silent about).                                       *)
Refused(c, i) == Fam[i] # alloc[c].fam \/ <<c, i>> \in veto
FirstRefused(c, ips) ==
  IF \E k \in 1..Len(ips) : Refused(c, ips[k])
    THEN CHOOSE k \in 1..Len(ips) : Refused(c, ips[k]) /\ \A j \in 1..(k-1) : ~Refused(c, ips[j])
    ELSE Len(ips) + 1
CreatePermission(c, u, ips) ==
  /\ last' = [a |-> "CreatePermission", c |-> c, u |-> u, ips |-> ips]
  /\ IF ~Owns(c, u)
       THEN UNCHANGED state /\ out' = {}
       ELSE LET fr   == FirstRefused(c, ips)
                inst == {ips[k] : k \in 1..(fr - 1)}
            IN /\ perm' = [perm EXCEPT ![c] = [i \in PeerIPs |-> IF i \in inst THEN PermTO ELSE @[i]]]
               /\ UNCHANGED <<alloc, chan, resv, veto>>
               /\ out' = IF fr > Len(ips)
                           THEN {Ok(c, "CreatePermission")}
                           ELSE {Err(c, "CreatePermission", 0)}

(* handleChannelBindRequest + Allocation.AddChannelBind.                   *)
ChannelBind(c, u, n, p) ==
  /\ last' = [a |-> "ChannelBind", c |-> c, u |-> u, n |-> n, p |-> p]
  /\ IF ~Owns(c, u)
       THEN UNCHANGED state /\ out' = {}
       ELSE IF Refused(c, p[1])
         THEN UNCHANGED state /\ out' = {Err(c, "ChannelBind", 0)}
         ELSE IF \/ ~ValidChan(n)
                 \/ (chan[c][n].bound /\ chan[c][n].peer # p)      \* same number, other peer
                 \/ (ChanOfPeer(c, p) \ {n} # {})                  \* same peer, other number
           THEN UNCHANGED state /\ out' = {Err(c, "ChannelBind", 400)}
           ELSE /\ chan' = [chan EXCEPT ![c][n] = [bound |-> TRUE, peer |-> p, rem |-> ChanTO]]
                /\ perm' = [perm EXCEPT ![c][p[1]] = PermTO]       \* with the permission timeout
                /\ UNCHANGED <<alloc, resv, veto>>
                /\ out'  = {Ok(c, "ChannelBind")}

(* Wire sizes (bytes) of the client's messages as the harness builds them: ChannelData is a  *)
(* 4-byte header + data padded to 4; a Send indication is the 20-byte STUN header + XOR-PEER-  *)
(* ADDRESS (12 for IPv4, 24 for IPv6) + DATA header 4 + data padded to 4.                      *)
Pad4(n)        == ((n + 3) \div 4) * 4
LenOf(len)     == IF len < 0 THEN 32 ELSE len
WireChan(len)  == 4 + Pad4(LenOf(len))
WireSend(p, len) == 20 + (IF Fam[p[1]] = 6 THEN 24 ELSE 12) + 4 + Pad4(LenOf(len))
RelayMTU       == 1600          \* rtpMTU: read buffer of the relay socket
\* readLoop: `n >= inboundMTU` is dropped as possibly truncated
FitsInbound(w) == w < InboundMTU

(* handleSendIndication: no authentication, needs a live permission for    *)
(* the peer's IP; leaves from the client's own relayed address.            *)
SendInd(c, p, pay, len) ==
  /\ last' = [a |-> "SendInd", c |-> c, p |-> p, pay |-> pay, len |-> len,
              beyond |-> ~FitsInbound(WireSend(p, len))]
  /\ UNCHANGED state
  /\ out' = IF Live(c) /\ perm[c][p[1]] > 0 /\ FitsInbound(WireSend(p, len))
              THEN {[k |-> "topeer", from |-> c, to |-> p, pay |-> pay]}
              ELSE {}

(* handleChannelData: needs the channel named in the message.              *)
ChanData(c, n, pay, len) ==
  /\ last' = [a |-> "ChanData", c |-> c, n |-> n, pay |-> pay, len |-> len,
              beyond |-> ~FitsInbound(WireChan(len))]
  /\ UNCHANGED state
  /\ out' = IF Live(c) /\ ValidChan(n) /\ chan[c][n].bound /\ FitsInbound(WireChan(len))
              THEN {[k |-> "topeer", from |-> c, to |-> chan[c][n].peer, pay |-> pay]}
              ELSE {}

(* packetConnHandler: a datagram from p arrives at c's relayed address.    *)
(* Channel bound to exactly p -> ChannelData; else permission for p's IP   *)
(* -> Data indication; else dropped.  A datagram longer than the relay     *)
(* buffer cannot be relayed whole and is dropped (C05: never altered).     *)
PeerData(c, p, pay, len) ==
  /\ last' = [a |-> "PeerData", c |-> c, p |-> p, pay |-> pay, len |-> len,
              beyond |-> LenOf(len) > RelayMTU]
  /\ UNCHANGED state
  /\ out' = IF ~Live(c) \/ LenOf(len) > RelayMTU THEN {}
            ELSE IF ChanOfPeer(c, p) # {}
              THEN {[k |-> "toclient", to |-> c, via |-> "chan",
                     n |-> CHOOSE n \in ChanOfPeer(c, p) : TRUE, peer |-> p, pay |-> pay]}
            ELSE IF perm[c][p[1]] > 0
              THEN {[k |-> "toclient", to |-> c, via |-> "ind", n |-> 0, peer |-> p, pay |-> pay]}
            ELSE {}

(* Clients named s1, s2 reach the server over a stream listener (TCP between client and server; the  *)
(* 5-tuple differs from a datagram client's in the transport only -- the harness gives s1 the IP and   *)
(* port of c1).  Requests, indications and ChannelData behave as above.  When the control connection  *)
(* ends the server deletes the allocation of that 5-tuple at once (server.go readLoop, stream case).  *)
ConnClose(c) ==
  /\ c \in StreamClients
  /\ last' = [a |-> "ConnClose", c |-> c]
  /\ alloc' = [alloc EXCEPT ![c] = NoAlloc]
  /\ perm'  = [perm EXCEPT ![c] = NoPerms]
  /\ chan'  = [chan EXCEPT ![c] = NoChans]
  /\ UNCHANGED <<resv, veto>>
  /\ out' = {}

---------------------------------------------------------------------------
(* Time.                                                                   *)
Rems ==
  {alloc[c].rem : c \in {x \in Clients : alloc[x].live}}
  \cup UNION {{perm[c][i] : i \in {j \in PeerIPs : perm[c][j] > 0}} : c \in Clients}
  \cup UNION {{chan[c][n].rem : n \in {m \in ChanNums : chan[c][m].bound}} : c \in Clients}
  \cup {resv[c] : c \in {x \in Clients : resv[x] > 0}}
MinRem == CHOOSE m \in Rems : \A r \in Rems : m <= r
Jumps  == IF Rems = {} THEN {} ELSE {1, MinRem - 1, MinRem} \ {0}

Advance(d) ==
  /\ Rems # {} /\ d >= 1 /\ d <= MinRem
  /\ last' = [a |-> "Advance", d |-> d]
  /\ LET dead == {c \in Clients : alloc[c].live /\ alloc[c].rem = d} IN
     /\ alloc' = [c \in Clients |->
                    IF c \in dead THEN NoAlloc
                    ELSE IF alloc[c].live THEN [alloc[c] EXCEPT !.rem = @ - d] ELSE alloc[c]]
     /\ perm'  = [c \in Clients |-> [i \in PeerIPs |->
                    IF c \in dead \/ perm[c][i] <= d THEN 0 ELSE perm[c][i] - d]]
     /\ chan'  = [c \in Clients |-> [n \in ChanNums |->
                    IF c \in dead \/ ~chan[c][n].bound \/ chan[c][n].rem <= d THEN NoChan
                    ELSE [chan[c][n] EXCEPT !.rem = @ - d]]]
     /\ resv'  = [c \in Clients |-> IF resv[c] <= d THEN 0 ELSE resv[c] - d]
  /\ UNCHANGED veto
  /\ out' = {}

---------------------------------------------------------------------------
(* the operator changes its mind about a pair (a run-time block list behind the PermissionHandler) *)
Veto(c, i) ==
  /\ <<c, i>> \in Vetoable
  /\ last' = [a |-> "Veto", c |-> c, i |-> i, on |-> (<<c, i>> \notin veto)]
  /\ veto' = IF <<c, i>> \in veto THEN veto \ {<<c, i>>} ELSE veto \cup {<<c, i>>}
  /\ UNCHANGED <<alloc, perm, chan, resv>>
  /\ out' = {}

Next ==
  \/ \E c \in Clients : Binding(c)
  \/ \E c \in Clients, u \in Users, lr \in LifeReqs, tx \in Txids, rf \in ReqFams, tk \in Toks : Allocate(c, u, lr, tx, rf, tk)
  \/ \E c \in Clients, u \in Users, lr \in LifeReqs, rf \in ReqFams : Refresh(c, u, lr, rf)
  \/ \E c \in Clients, u \in Users, ips \in PermSeqs : CreatePermission(c, u, ips)
  \/ \E c \in Clients, u \in Users, n \in ChanNums, p \in Peers : ChannelBind(c, u, n, p)
  \/ \E c \in Clients, p \in Peers, pay \in Pays, len \in Lens : SendInd(c, p, pay, len)
  \/ \E c \in Clients, n \in ChanNums, pay \in Pays, len \in Lens : ChanData(c, n, pay, len)
  \/ \E c \in Clients, p \in Peers, pay \in Pays, len \in Lens : PeerData(c, p, pay, len)
  \/ \E c \in StreamClients : ConnClose(c)
  \/ \E c \in Clients, u \in Users, tx \in Txids : AllocateLostWrite(c, u, tx)
  \/ \E c \in Clients, u \in Users, tx \in Txids : AllocateNoPort(c, u, tx)
  \/ \E d \in Jumps : Advance(d)
  \/ \E c \in Clients, i \in PeerIPs : Veto(c, i)

Spec == Init /\ [][Next]_vars
View == state

---------------------------------------------------------------------------
(* Properties, stated separately from the actions.                         *)

TypeOK ==
  /\ \A c \in Clients : alloc[c].live => /\ alloc[c].user \in Users
                                         /\ alloc[c].fam \in {4, 6}
                                         /\ alloc[c].rem \in 1..(IF DefaultLife > MaxLife THEN DefaultLife ELSE MaxLife)
  /\ \A c \in Clients, i \in PeerIPs : perm[c][i] \in 0..PermTO
  /\ \A c \in Clients, n \in ChanNums : chan[c][n].bound => chan[c][n].rem \in 1..ChanTO

\* C01: every datagram toward a peer is justified by the sender's own, live authorisation
\* in the state before the step, leaves from the sender's own relayed address and carries
\* the submitted payload; nothing else is emitted toward peers.
C01_OnlyAuthorised ==
  [][\A o \in out' : o.k = "topeer" =>
        /\ last'.a \in {"SendInd", "ChanData"}
        /\ o.from = last'.c /\ Live(last'.c) /\ o.pay = last'.pay
        /\ (last'.a = "SendInd"  => perm[last'.c][o.to[1]] > 0 /\ o.to = last'.p)
        /\ (last'.a = "ChanData" => /\ chan[last'.c][last'.n].bound
                                    /\ o.to = chan[last'.c][last'.n].peer)]_vars

\* C01: a vetoed or wrong-family peer is never installed
C01_NeverInstalled ==
  \A c \in Clients, i \in PeerIPs :
     (Live(c) /\ (<<c, i>> \in (Denied \ Vetoable) \/ Fam[i] # alloc[c].fam)) =>
        /\ perm[c][i] = 0
        /\ \A n \in ChanNums : chan[c][n].bound => chan[c][n].peer[1] # i

\* C01: the operator's handler is asked every time: a permission or a binding is installed or prolonged only for a
\* peer the handler admits at that moment (what it admitted earlier lives out its time, no longer)
C01_AskedEveryTime ==
  [][\A c \in Clients, i \in PeerIPs :
        (\/ perm'[c][i] > perm[c][i]
         \/ \E n \in ChanNums : /\ chan'[c][n].bound /\ chan'[c][n].peer[1] = i
                                 /\ (~chan[c][n].bound \/ chan'[c][n].rem > chan[c][n].rem))
          => <<c, i>> \notin veto]_vars

\* C02: whatever reaches a client because of a peer datagram goes to the owner of the relayed
\* address only and is justified by a permission for the source IP or a channel bound to
\* exactly the source.
C02_OnlyPermitted ==
  [][\A o \in out' : o.k = "toclient" =>
        /\ last'.a = "PeerData" /\ o.to = last'.c /\ Live(o.to) /\ o.peer = last'.p
        /\ o.pay = last'.pay
        /\ (o.via = "ind"  => perm[o.to][o.peer[1]] > 0)
        /\ (o.via = "chan" => chan[o.to][o.n].bound /\ chan[o.to][o.n].peer = o.peer
                                /\ ValidChan(o.n))]_vars

\* C05: what is relayed is the submitted payload (identity of pay), once (out is a set of
\* records and every data action emits at most one), attributed to the real source; within
\* the documented limits an authorised datagram MUST come out, beyond them it comes out whole
\* or not at all (the actions choose "not at all", which is what the code does).
C05_WithinLimitsDelivered ==
  [][/\ (last'.a = "SendInd" /\ ~last'.beyond /\ Live(last'.c) /\ perm[last'.c][last'.p[1]] > 0)
          => out' = {[k |-> "topeer", from |-> last'.c, to |-> last'.p, pay |-> last'.pay]}
     /\ (last'.a = "ChanData" /\ ~last'.beyond /\ Live(last'.c) /\ ValidChan(last'.n) /\ chan[last'.c][last'.n].bound)
          => out' = {[k |-> "topeer", from |-> last'.c, to |-> chan[last'.c][last'.n].peer, pay |-> last'.pay]}
     /\ (last'.a = "PeerData" /\ ~last'.beyond /\ Live(last'.c)
            /\ (perm[last'.c][last'.p[1]] > 0 \/ ChanOfPeer(last'.c, last'.p) # {}))
          => \E o \in out' : o.k = "toclient" /\ o.to = last'.c /\ o.peer = last'.p /\ o.pay = last'.pay
     /\ Cardinality(out') <= 1]_vars

\* C04: frame condition: a step by (or for) client c changes nothing of any other client and
\* addresses nothing to, and sends nothing from, any other client.
Actor == IF "c" \in DOMAIN last' THEN {last'.c} ELSE {}
C04_Isolation ==
  [][last'.a # "Advance" =>
       /\ \A d \in Clients \ Actor :
            alloc'[d] = alloc[d] /\ perm'[d] = perm[d] /\ chan'[d] = chan[d] /\ resv'[d] = resv[d]
       /\ \A o \in out' : (o.k \in {"resp", "toclient"} => o.to \in Actor)
                       /\ (o.k = "topeer" => o.from \in Actor)]_vars

\* C06: the countdown armed equals the LIFETIME answered; Refresh(0) deletes at once;
\* nothing survives its allocation.
C06_Exact ==
  [][\A o \in out' : (o.k = "resp" /\ o.cls = "ok" /\ o.m \in {"Allocate", "Refresh"} /\ o.life >= 0) =>
        IF o.life = 0 THEN ~alloc'[o.to].live
        ELSE alloc'[o.to].live /\ alloc'[o.to].rem = o.life
             /\ o.life = (IF last'.lr >= 0 /\ last'.lr < MaxLife THEN last'.lr ELSE DefaultLife)]_vars
NoOrphans ==
  \A c \in Clients : ~Live(c) => perm[c] = NoPerms /\ chan[c] = NoChans

\* C07: only a successful CreatePermission / ChannelBind raises a countdown, and then to the
\* full timeout (the permission timeout for permissions on both paths).
C07_FullRestart ==
  [][ /\ \A c \in Clients, i \in PeerIPs :
           perm'[c][i] > perm[c][i] =>
              /\ perm'[c][i] = PermTO
              /\ last'.a \in {"CreatePermission", "ChannelBind"} /\ last'.c = c
      /\ \A c \in Clients, n \in ChanNums :
           (chan'[c][n].bound /\ (~chan[c][n].bound \/ chan'[c][n].rem > chan[c][n].rem)) =>
              /\ chan'[c][n].rem = ChanTO
              /\ last'.a = "ChannelBind" /\ last'.c = c /\ last'.n = n /\ last'.p = chan'[c][n].peer
              /\ \E o \in out' : o.k = "resp" /\ o.cls = "ok" ]_vars

\* C08: bijection inside the valid range; conflicting binds change nothing and answer 400
C08_Bijection ==
  \A c \in Clients : \A n1, n2 \in ChanNums :
     (chan[c][n1].bound /\ chan[c][n2].bound /\ chan[c][n1].peer = chan[c][n2].peer) => n1 = n2
C08_Range == \A c \in Clients, n \in ChanNums : chan[c][n].bound => ValidChan(n)
C08_Conflict400 ==
  [][(last'.a = "ChannelBind" /\ Owns(last'.c, last'.u) /\ ~Refused(last'.c, last'.p[1])
        /\ \/ (chan[last'.c][last'.n].bound /\ chan[last'.c][last'.n].peer # last'.p)
           \/ (ChanOfPeer(last'.c, last'.p) \ {last'.n} # {}))
      => UNCHANGED state /\ out' = {Err(last'.c, "ChannelBind", 400)}]_vars

\* C19: a reserved port is handed to at most one live allocation, and only while the reservation lives
C19_ReservedOnce ==
  \A c1, c2 \in Clients : (alloc[c1].live /\ alloc[c2].live /\ c1 # c2 /\ alloc[c1].port[1] = "next")
                             => alloc[c1].port # alloc[c2].port
C19_TokenNeedsReservation ==
  [][\A o \in out' : (o.k = "resp" /\ o.cls = "ok" /\ last'.a = "Allocate" /\ last'.tk \in Clients /\ o.life # -2)
        => resv[last'.tk] > 0]_vars

\* C19: one allocation per 5-tuple is structural (alloc is a function of the 5-tuple); a second
\* Allocate changes nothing
C19_SecondAllocate ==
  [][(last'.a = "Allocate" /\ Live(last'.c)) => UNCHANGED state]_vars
=============================================================================
