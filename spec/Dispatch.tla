------------------------------ MODULE Dispatch ------------------------------
(***************************************************************************)
(* Inbound classification of the two endpoints, as decision tables over     *)
(* message SHAPES (C09): what the server's HandleRequest (datagram          *)
(* listener), the server's stream read loop, and the client's HandleInbound *)
(* must do with every kind of input -- answer, relay, drop silently, close  *)
(* the offending stream, classify (handled, error) -- and that the endpoint *)
(* is alive afterwards (the harness probes liveness after every step with a *)
(* Binding transaction from the same and from another party).              *)
(* A shape fixes the structure of the input; the bytes the shape leaves     *)
(* free are filled from the seed by the harness.                            *)
(*                                                                         *)
(* st  the state class of the endpoint: "none" (no allocation), "udp" (UDP  *)
(*     allocation, permission for A, channel 0x4000 bound to A:1), "tcp"    *)
(*     (TCP allocation, same permission and channel)                        *)
(***************************************************************************)
EXTENDS Integers, Sequences, FiniteSets, TLC, Json

CONSTANTS Mode,        \* "server-udp" | "server-stream" | "client"
          Shapes       \* the shapes tried in this mode

VARIABLES st, out, last,
          stun     \* client only: a STUN server address is configured besides the TURN server's (fixed at creation)
vars == <<st, out, last, stun>>

Init == st = "none" /\ out = {} /\ last = [a |-> "Init"] /\ stun \in (IF Mode = "client" THEN BOOLEAN ELSE {TRUE})

Setup(kind) ==
  /\ st = "none"
  /\ st' = kind /\ out' = {} /\ last' = [a |-> "Setup", kind |-> kind] /\ UNCHANGED stun

(* ---- server, datagram listener (internal/server/server.go HandleRequest) ---- *)
Silent == [k |-> "outcome", cls |-> "silent", code |-> 0]
RespC(c) == [k |-> "outcome", cls |-> "resp", code |-> c]
Relay == [k |-> "outcome", cls |-> "relay", code |-> 0]
Closed == [k |-> "outcome", cls |-> "closed", code |-> 0]

ServerUDP(sh) ==
  CASE sh \in {"empty", "one", "three", "short19", "cdLenOver", "cdInvalidNum", "stunBadCookie", "stunLenLong",
               "stunLenShort", "stunLenFFEC", "attrOverrun", "respSuccess", "respError", "indBinding", "indAllocate",
               "reqUnknownMethod", "dataInd"} -> Silent
    [] sh \in {"cdUnbound", "sendNoPerm", "sendNoData", "sendNoPeer", "sendEmptyPeer48"} -> Silent
       \* (sendEmptyPeer48: a 48-byte Send indication whose LAST attribute is an XOR-PEER-ADDRESS of length zero: the
       \*  value is the empty tail of a buffer without spare capacity)
    [] sh \in {"cdBound", "cdBoundCookie"} -> IF st = "udp" THEN Relay ELSE Silent   \* a TCP allocation has no datagram relay
       \* (cdBoundCookie: the data begins with the STUN magic cookie -- ChannelData all the same)
    [] sh = "sendOK"     -> IF st = "udp" THEN Relay ELSE Silent
    [] sh = "bindingOK"  -> RespC(0)                                   \* success
    [] sh = "bindingUnkOpt" -> RespC(0)                                \* unknown comprehension-optional: ignored
    [] sh = "bindingUnkReq" -> RespC(420)                              \* unknown comprehension-required
    [] sh = "allocUnkReq"   -> RespC(420)
    [] sh \in {"allocNoAuth", "refreshNoAuth", "cpNoAuth", "cbNoAuth", "connectNoAuth", "cbindNoAuth"} -> RespC(401)
    [] sh = "allocDupAttrs" -> RespC(401)
    [] sh = "stunUnaligned" -> Silent

(* ---- server, stream listener: frames are dispatched like datagrams; bytes that cannot begin a  *)
(* frame close that connection (and only that one); an incomplete frame just waits               *)
ServerStream(sh) ==
  CASE sh \in {"junk20", "stunBadCookie"} -> Closed
    [] sh \in {"prefixStunFFEC", "prefixChanFFFF", "prefix3", "empty"} -> Silent
    \* a complete frame longer than the inbound MTU (2004-byte ChannelData, 1700-byte STUN): dropped, the connection lives
    [] sh \in {"cdOversize", "stunOversize"} -> Silent
    [] sh = "bindingOK" -> RespC(0)
    [] sh = "bindingUnkReq" -> RespC(420)
    [] sh = "allocNoAuth" -> RespC(401)
    [] sh \in {"cdUnbound", "cdUnboundCookie", "respSuccess", "indBinding"} -> Silent

(* ---- client (Client.HandleInbound, the table in client.go) ---- *)
Cl(h, e) == [k |-> "classified", handled |-> h, err |-> e]
Client(sh) ==
  CASE sh \in {"appData", "empty", "one", "short19"} -> Cl(FALSE, FALSE)            \* application data
    [] sh \in {"stunTruncated", "stunAttrOverrun", "request"} -> Cl(TRUE, TRUE)
    [] sh \in {"respUnknownTx", "indUnknownMethod", "dataIndNoConn"} -> Cl(TRUE, FALSE)
    [] sh \in {"dataIndNoPeer", "dataIndNoData", "attemptNoPeer", "attemptNoID", "attemptShortID",
               "dataIndEmptyPeer", "attemptEmptyPeer"} -> Cl(TRUE, TRUE)     \* (…EmptyPeer: XOR-PEER-ADDRESS of length zero, last)
    [] sh = "dataIndOK" -> Cl(TRUE, FALSE)
    [] sh = "attemptOK" -> Cl(TRUE, FALSE)
    [] sh \in {"cdKnown", "cdKnownCookie"} -> Cl(TRUE, FALSE)
    [] sh = "cdUnknown" -> IF st = "udp" THEN Cl(TRUE, TRUE) ELSE Cl(TRUE, FALSE)    \* no relayed UDP socket: discarded silently
    [] sh = "cdLenOver" -> Cl(FALSE, FALSE)                                          \* not ChannelData, not STUN: app data
    \* from the address of the STUN server but not STUN: an error -- when such an address is configured; a client
    \* that only has a TURN server takes it for application data
    [] sh = "nonStunFromServer" -> IF stun THEN Cl(TRUE, TRUE) ELSE Cl(FALSE, FALSE)
    [] sh \in {"burstData", "burstAttempts"} -> Cl(TRUE, FALSE)                      \* more than the queues hold: dropped, never blocking

\* seeded byte-level mutations of well-formed messages: any outcome class, the endpoint stays alive
AnyOutcome == [k |-> "any"]
Outcome(sh) == IF sh = "mutated" THEN AnyOutcome ELSE IF Mode = "server-udp" THEN ServerUDP(sh)
               ELSE IF Mode = "server-stream" THEN ServerStream(sh) ELSE Client(sh)

Deliver(sh) ==
  /\ out' = {Outcome(sh)}
  /\ last' = [a |-> "Deliver", shape |-> sh, st |-> st]
  /\ UNCHANGED <<st, stun>>

Kinds == IF Mode = "client" THEN {"udp", "tcp"} ELSE IF Mode = "server-udp" THEN {"udp", "tcp"} ELSE {"udp"}
Next == (\E k \in Kinds : Setup(k)) \/ (\E sh \in Shapes : Deliver(sh))
Spec == Init /\ [][Next]_vars
View == <<st, stun>>

\* C09: every shape has exactly one documented outcome, and no shape takes the endpoint down
C09_Total == [][\A o \in out' : o.k \in {"outcome", "classified", "any"}]_vars
C09_ClosedOnlyStreams == [][\A o \in out' : (o.k = "outcome" /\ o.cls = "closed") => Mode = "server-stream"]_vars

MCServerUDP == {"empty", "one", "three", "short19", "cdLenOver", "cdInvalidNum", "cdUnbound", "cdBound", "cdBoundCookie", "stunBadCookie",
                "stunLenLong", "stunLenShort", "stunUnaligned", "stunLenFFEC", "attrOverrun", "respSuccess", "respError",
                "indBinding", "indAllocate", "reqUnknownMethod", "dataInd", "sendOK", "sendNoPerm", "sendNoData", "sendNoPeer", "sendEmptyPeer48",
                "bindingOK", "bindingUnkOpt", "bindingUnkReq", "allocUnkReq", "allocNoAuth", "refreshNoAuth", "cpNoAuth",
                "cbNoAuth", "connectNoAuth", "cbindNoAuth", "allocDupAttrs", "mutated"}
MCServerStream == {"junk20", "stunBadCookie", "prefixStunFFEC", "prefixChanFFFF", "prefix3", "empty", "bindingOK",
                   "bindingUnkReq", "allocNoAuth", "cdUnbound", "cdUnboundCookie", "cdOversize", "stunOversize", "respSuccess", "indBinding", "mutated"}
MCClient == {"appData", "empty", "one", "short19", "stunTruncated", "stunAttrOverrun", "request", "respUnknownTx",
             "indUnknownMethod", "dataIndNoPeer", "dataIndNoData", "dataIndOK", "attemptNoPeer", "attemptNoID", "attemptShortID", "attemptOK", "dataIndEmptyPeer", "attemptEmptyPeer",
             "cdKnown", "cdKnownCookie", "cdUnknown", "cdLenOver", "nonStunFromServer", "burstData", "burstAttempts", "mutated"}
ASSUME PrintT("META " \o ToJson([Sys |-> "dispatch", Extra |-> [mode |-> Mode]]))
EmitEdge == PrintT("EDGE " \o ToJson([s |-> [st |-> st, stun |-> stun], a |-> last', o |-> out', t |-> [st |-> st', stun |-> stun']]))
=============================================================================
