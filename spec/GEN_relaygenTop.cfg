SPECIFICATION Spec
VIEW View
CHECK_DEADLOCK FALSE
CONSTANTS
  MinPort = 65534
  MaxPort = 65535
  MaxRetries = 2
  Kinds = {"range"}
  Protos = {"udp", "tcp"}
  Fams = {4}
  ReqPorts = {65535}
  Classes = {"lo", "hi", "mid", "hit"}
ACTION_CONSTRAINT EmitEdge
