\* a retransmission whose socket write takes time and may fail, Close called meanwhile
SPECIFICATION Spec
VIEW View
CHECK_DEADLOCK FALSE
CONSTANTS
  Txns = {"t1", "t2"}
  RTO = 500
  MaxIvl = 1600
  MaxSend = 7
  FineTime = FALSE
  SlowWrites = FALSE
  SlowRtx = "write"
  IgnoreToo = FALSE
  FailAts = {0}
  MaxDepth = 7
CONSTRAINT DepthBound
ACTION_CONSTRAINT EmitEdge
