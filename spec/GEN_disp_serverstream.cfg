SPECIFICATION Spec
VIEW View
CHECK_DEADLOCK FALSE
CONSTANTS
  Mode = "server-stream"
  Shapes <- MCServerStream
ACTION_CONSTRAINT EmitEdge
