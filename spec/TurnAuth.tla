------------------------------ MODULE TurnAuth ------------------------------
(***************************************************************************)
(* The long-term credential gate in front of TurnServer's handlers          *)
(* (authenticateRequest in internal/server/util.go), as an ordered check    *)
(* list over abstract credential defects.  A request whose credentials are  *)
(* authentic is exactly the TurnServer action of the same name; every other *)
(* request is BadCred: the tables are unchanged, no success is answered,    *)
(* and the defects "no MESSAGE-INTEGRITY" / "nonce not acceptable" are      *)
(* answered by a challenge (401 / 438) carrying a nonce and the realm.      *)
(* The nonce the harness presents in authentic requests is always the one   *)
(* from the most recent challenge, so a server that does not accept its own *)
(* fresh nonce fails the next authentic step.                               *)
(***************************************************************************)
EXTENDS TurnServer

CONSTANTS
  HasAuth,     \* BOOLEAN: an AuthHandler is configured
  CredKinds,   \* credential defects tried
  Methods      \* request methods tried with defective credentials

\* defects of the nonce: answered 438 + NONCE + REALM
NonceDefects == {"forgedNonce", "mutTsNonce", "mutMacNonce", "otherInstNonce", "staleNonce", "futureNonce",
                 "emptyNonce", "garbageNonce", "longNonce", "dupNonce"}
\* ("dupNonce": integrity computed over a stale nonce, a second NONCE with a fresh value appended behind MESSAGE-INTEGRITY)
\* defects found before / after the nonce check: answered with an error without success (400)
OtherDefects == {"noNonce", "noUser", "noRealm", "noRealmKeyed", "otherRealm", "ghostUser", "ghostEmptyKey", "revoked", "wrongPw", "truncMI", "flipMI", "flipBody", "otherUserKey"}

\* ("ghostEmptyKey": a username the operator's handler does not know, MESSAGE-INTEGRITY computed with the EMPTY key --
\*  the key a handler that answers ("", nil, false) hands back, which anybody can compute.
\*  In GEN_anon the only user is one the operator's handler identifies by the empty user id: a request the gate
\*  has merely challenged carries that same empty id, so a handler that went on after the challenge would find the owner.)

\* ("revoked": the right key of a user the operator's handler has stopped knowing since the allocation was made)
Challenge(c, m) == [k |-> "resp", to |-> c, m |-> m, cls |-> "err", code |-> -1, nonce |-> TRUE, realm |-> TRUE]

(* authenticateRequest, in the code's order of checks *)
BadCred(c, m, k) ==
  /\ last' = [a |-> "BadCred", c |-> c, m |-> m, k |-> k]
  /\ UNCHANGED state
  /\ out' = IF k = "noMI" THEN {Challenge(c, m)}                 \* 401
            ELSE IF ~HasAuth THEN {Err(c, m, 0)}                 \* STUN-only server: 400
            ELSE IF k \in NonceDefects THEN {Challenge(c, m)}    \* 438
            ELSE {Err(c, m, 0)}

(* an Allocate that repeats the transaction id of the Allocate which created c's allocation -- what a retransmission *)
(* looks like -- but with defective credentials: the retransmission cache is behind the gate, not in front of it    *)
BadCredReplay(c, k) ==
  /\ Live(c)
  /\ last' = [a |-> "BadCred", c |-> c, m |-> "Allocate", k |-> k, tx |-> alloc[c].tx]
  /\ UNCHANGED state
  /\ out' = IF k = "noMI" THEN {Challenge(c, "Allocate")}
            ELSE IF ~HasAuth THEN {Err(c, "Allocate", 0)}
            ELSE IF k \in NonceDefects THEN {Challenge(c, "Allocate")}
            ELSE {Err(c, "Allocate", 0)}

(* with no handler configured even perfect credentials achieve nothing *)
NoHandler(c, m) ==
  /\ ~HasAuth
  /\ last' = [a |-> "BadCred", c |-> c, m |-> m, k |-> "ok"]
  /\ UNCHANGED state
  /\ out' = {Err(c, m, 0)}

AuthNext ==
  \/ (HasAuth /\ Next)
  \/ (~HasAuth /\ \E c \in Clients : Binding(c))
  \/ \E c \in Clients, m \in Methods, k \in CredKinds : BadCred(c, m, k)
  \/ \E c \in Clients, k \in CredKinds : BadCredReplay(c, k)
  \/ \E c \in Clients, m \in Methods : NoHandler(c, m)

AuthSpec == Init /\ [][AuthNext]_vars

\* C03: a request that is not authentic changes nothing and is not answered with success;
\* a challenge carries a nonce and the realm
C03_NoEffect ==
  [][last'.a = "BadCred" =>
       /\ UNCHANGED state
       /\ \A o \in out' : o.k = "resp" /\ o.cls = "err" /\ o.to = last'.c
       /\ (last'.k = "noMI" \/ (HasAuth /\ last'.k \in NonceDefects)) =>
             \A o \in out' : o.nonce /\ o.realm]_vars
\* C03: only the owner's requests touch an allocation (all methods but Allocate)
C03_OwnerOnly ==
  [][(last'.a \in {"Refresh", "CreatePermission", "ChannelBind"} /\ ~Owns(last'.c, last'.u))
       => UNCHANGED state /\ out' = {}]_vars
=============================================================================
