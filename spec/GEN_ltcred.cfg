SPECIFICATION Spec
VIEW View
CONSTANTS
  Kinds = {"lt", "rest"}
  Users = {"alice", "tenant:alice", ""}
  Durs <- MCDurs
  Ticks = {1}
  Muts <- MCMuts
  MaxNow = 5
ACTION_CONSTRAINT EmitEdge
CHECK_DEADLOCK FALSE
