\* MC_stream3 -- generated by mkcfg.py; two stream clients with the same IP and port connected to two local IPs of one wildcard listener (5-tuples differ in the server IP only)
SPECIFICATION Spec
VIEW View
CONSTANTS
  Clients = {"s1", "sy"}
  Users = {"u1"}
  PeerIPs = {"A"}
  PeerPorts = {1}
  Fam <- MCFam
  ListenFam <- MCListenFam
  Strict = FALSE
  ReqFams = {0}
  ChanNums = {16384}
  LifeReqs <- MCLifeAbsent0
  Txids = {"t1"}
  Pays = {"p"}
  Lens <- MCLenSmall
  InboundMTU = 1600
  PermSeqs <- MCPermSeqs1
  DefaultLife = 5
  PermTO = 2
  ChanTO = 3
  MaxLife = 3600
  Denied <- MCNoDenied
  Vetoable = {}
  Toks = {"none"}
  ResvTO = 30
  QuotaDenied = {}
  MaxDepth = 6
CONSTRAINT DepthBound
INVARIANTS TypeOK C01_NeverInstalled NoOrphans C08_Bijection C08_Range C19_ReservedOnce
PROPERTIES C01_OnlyAuthorised C01_AskedEveryTime C02_OnlyPermitted C04_Isolation C05_WithinLimitsDelivered C06_Exact C07_FullRestart C08_Conflict400 C19_SecondAllocate C19_TokenNeedsReservation
