SPECIFICATION Spec
VIEW View
CHECK_DEADLOCK FALSE
CONSTANTS
  Mode = "server-stream"
  Shapes <- MCServerStream
PROPERTIES C09_Total C09_ClosedOnlyStreams
