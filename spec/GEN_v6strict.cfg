\* GEN_v6strict -- generated by mkcfg.py; StrictAddressFamily: absent family means IPv4 even on an IPv6 listener
SPECIFICATION Spec
VIEW View
CONSTANTS
  Clients = {"c6"}
  Users = {"u1"}
  PeerIPs = {"A", "X"}
  PeerPorts = {1}
  Fam <- MCFam
  ListenFam <- MCListenFam
  Strict = TRUE
  ReqFams = {0, 6}
  ChanNums = {16384}
  LifeReqs <- MCLifeAbsent
  Txids = {"t1"}
  Pays = {"p"}
  Lens <- MCLenSmall
  InboundMTU = 1600
  PermSeqs <- MCPermSeqs1
  DefaultLife = 5
  PermTO = 2
  ChanTO = 3
  MaxLife = 3600
  Denied <- MCNoDenied
  Vetoable = {}
  Toks = {"none"}
  ResvTO = 30
  QuotaDenied = {}
  MaxDepth = 5
CONSTRAINT DepthBound
ACTION_CONSTRAINT EmitEdge
