--------------------------- MODULE TraceLedgerRT ---------------------------
(***************************************************************************)
(* Engine B, real time: the lifecycle callbacks are truthful while they are *)
(* slow (harness/ledger_rt_test.go).  A server with timeouts of a few       *)
(* hundred milliseconds and an operator whose OnPermissionDeleted /         *)
(* OnChannelDeleted callbacks take 150 ms each; a peer sends a numbered     *)
(* datagram every few milliseconds, the client submits numbered ChannelData.*)
(* One log, one lock.  Only order is judged:                                *)
(*   once "permission for ip deleted" has been announced, no datagram that  *)
(*   ip SENT AFTER the announcement reaches the client, until a new         *)
(*   permission for ip is announced (C02: only while a permission exists;   *)
(*   C15: the callbacks tell the truth);                                    *)
(*   once "channel n deleted" has been announced, no ChannelData the client *)
(*   SUBMITTED AFTER the announcement on n reaches a peer until n is        *)
(*   announced again (C01).                                                 *)
(*   once the client HOLDS the success response to its Refresh with        *)
(*   lifetime 0 ("alloc-", logged when the response is read), everything    *)
(*   the allocation had is gone: nothing sent after that moment arrives in  *)
(*   either direction (C06: removed immediately, the relayed address no     *)
(*   longer relays).                                                        *)
(* (a datagram sent before an announcement may be logged after it: it was   *)
(* relayed while the entry still existed; that is why sends are logged.)    *)
(***************************************************************************)
EXTENDS Integers, Sequences, TLC, Json

CONSTANTS TraceFile,
          Arrivals     \* TRUE: arrivals are judged; FALSE: only the probes and the final state (for properties that do not own arrivals)
Tr == ndJsonDeserialize(TraceFile)

VARIABLES l, goneP, goneC, liveC, late
\* goneP / goneC: peer IPs / channel numbers whose deletion has been announced (and no re-creation since);
\* late: ids sent while their authority was announced gone
tvars == <<l, goneP, goneC, liveC, late>>
Line == Tr[l]
IsEvent(e) == l <= Len(Tr) /\ Line.e = e /\ l' = l + 1

TInit  == l = 1 /\ goneP = {} /\ goneC = {} /\ liveC = {} /\ late = {}
TReset == IsEvent("Reset") /\ goneP' = {} /\ goneC' = {} /\ liveC' = {} /\ late' = {}
SeqSet(q) == {q[i] : i \in DOMAIN q}
TGone  == IsEvent("Gone")    \* the Refresh(0) success is in the client's hands; ips / chans: what the allocation had
          /\ goneP' = goneP \cup SeqSet(Line.ips)
          /\ goneC' = goneC \cup SeqSet(Line.chans)
          /\ liveC' = liveC \ SeqSet(Line.chans)
          /\ UNCHANGED late
TEv    == IsEvent("Ev")
          /\ goneP' = (IF Line.kind = "perm-" THEN goneP \cup {Line.key} ELSE IF Line.kind = "perm+" THEN goneP \ {Line.key} ELSE goneP)
          /\ goneC' = (IF Line.kind = "chan-" THEN goneC \cup {Line.key} ELSE IF Line.kind = "chan+" THEN goneC \ {Line.key} ELSE goneC)
          /\ liveC' = (IF Line.kind = "chan+" THEN liveC \cup {Line.key} ELSE IF Line.kind = "chan-" THEN liveC \ {Line.key} ELSE liveC)
          /\ UNCHANGED late
\* a peer sends datagram id from ip / the client submits ChannelData id on channel n
\* (a channel bound to exactly that peer authorises its datagrams by itself: the driver's only channel, 16384, is bound
\* to the one peer that sends; it counts as alive from its chan+ to its chan- announcement)
ChanAlive == "16384" \in liveC
TSendP == IsEvent("PeerSend") /\ late' = (IF Line.ip \in goneP /\ ~ChanAlive THEN late \cup {Line.id} ELSE late) /\ UNCHANGED <<goneP, goneC, liveC>>
TSendC == IsEvent("ChanSend") /\ late' = (IF Line.n \in goneC THEN late \cup {Line.id} ELSE late) /\ UNCHANGED <<goneP, goneC, liveC>>
\* something arrived: it was not sent while its authority had been announced gone
TArrive == IsEvent("Arrive") /\ (Arrivals => Line.id \notin late) /\ UNCHANGED <<goneP, goneC, liveC, late>>
\* what the client submits on a channel that is alive arrives -- unless the deletion of that channel has been announced
\* by the time the driver gives up waiting (two other channels lapse in the same instant: their removals overlap)
TProbe    == IsEvent("Probe") /\ UNCHANGED <<goneP, goneC, liveC, late>>
TProbeEnd == IsEvent("ProbeEnd") /\ (Line.arrived \/ Line.n \in goneC) /\ UNCHANGED <<goneP, goneC, liveC, late>>
\* the server has been closed under traffic: nothing is left, every announced allocation has been announced deleted
TDown  == IsEvent("Down") /\ Line.count = 0 /\ Line.created = Line.deleted /\ UNCHANGED <<goneP, goneC, liveC, late>>
TNote  == IsEvent("Note") /\ UNCHANGED <<goneP, goneC, liveC, late>>
TNext == TReset \/ TEv \/ TGone \/ TProbe \/ TProbeEnd \/ TDown \/ TSendP \/ TSendC \/ TArrive \/ TNote
TSpec == TInit /\ [][TNext]_tvars

Progress == TLCSet(1, IF l > TLCGet(1) THEN l ELSE TLCGet(1))
ASSUME TLCSet(1, 0)
Accepted ==
  IF TLCGet(1) = Len(Tr) + 1 THEN PrintT("TRACE ACCEPTED " \o ToString(Len(Tr)))
  ELSE /\ PrintT("TRACE REJECTED at line " \o ToString(TLCGet(1)) \o " of " \o ToString(Len(Tr)))
       /\ PrintT(Tr[TLCGet(1)])
       /\ FALSE
=============================================================================
