\* GEN_resv -- generated by mkcfg.py; EVEN-PORT / RESERVATION-TOKEN
SPECIFICATION Spec
VIEW View
CONSTANTS
  Clients = {"c1", "c2"}
  Users = {"u1"}
  PeerIPs = {"A"}
  PeerPorts = {1}
  Fam <- MCFam
  ListenFam <- MCListenFam
  Strict = FALSE
  ReqFams = {0, 4}
  ChanNums = {16384}
  LifeReqs <- MCLifeAbsent0
  Txids = {"t1", "t2"}
  Pays = {"p"}
  Lens <- MCLenSmall
  InboundMTU = 1600
  PermSeqs <- MCPermSeqs1
  DefaultLife = 40
  PermTO = 35
  ChanTO = 35
  MaxLife = 3600
  Denied <- MCNoDenied
  Vetoable = {}
  Toks = {"none", "even", "bogus", "c1", "c2"}
  ResvTO = 30
  QuotaDenied = {}
  MaxDepth = 5
CONSTRAINT DepthBound
ACTION_CONSTRAINT EmitEdge
