-------------------------- MODULE TraceClientTxnRT --------------------------
(***************************************************************************)
(* Engine B for C12 under REAL concurrency: the real turn.Client runs many  *)
(* transactions at once, in real time (RTO 5 ms), against a scripted server *)
(* that answers some of them immediately, some never and many within a few  *)
(* milliseconds of one of their retransmission deadlines, over a socket     *)
(* whose retransmission writes are sometimes slow -- the client holds its   *)
(* transaction-table lock across that write, so timer callbacks and the     *)
(* inbound path pile up behind it (harness/clienttxn_rt_test.go).           *)
(* The virtual-time walks of ClientTxn.tla cannot produce these schedules   *)
(* (a goroutine waiting for a mutex is invisible to the virtual clock).     *)
(*                                                                         *)
(* Real time is not reproducible, so nothing here depends on durations:     *)
(* only the ORDER of the recorded events (one log, one lock) is judged, by  *)
(* the contract of ClientTxn.tla: a transaction is transmitted at most 7    *)
(* times and never after it has completed; it completes exactly once, with  *)
(* a response only if one with its id was injected before, with a timeout   *)
(* only after the 7th transmission; when the execution ends nothing is      *)
(* pending and the table is empty (it never hangs).                         *)
(* Last phase (ClientTxn!RtxSlow, CloseBlocked, RtxWriteDone): a            *)
(* retransmission stays inside the socket write while Client.Close is       *)
(* called, then fails.  The timer callback holds the table lock: nobody is  *)
(* told "closed" and Close does not return before the write has returned;   *)
(* afterwards everybody has returned, once.                                 *)
(***************************************************************************)
EXTENDS Integers, Sequences, TLC, Json

CONSTANT TraceFile
Tr == ndJsonDeserialize(TraceFile)

VARIABLES l, st, sent, resp, inw, closing, early
\* inw: the transaction whose retransmission is inside the socket write ("" = none); closing: Close has been called
\* early: transactions whose response was injected after their first and before their third transmission (the request
\* is in the table, and there is more than half a second of real time before it can give up): they complete with that
\* response.  (A response injected before the first transmission has left finds no transaction and is ignored.)
tvars == <<l, st, sent, resp, inw, closing, early>>
Line == Tr[l]
IsEvent(e) == l <= Len(Tr) /\ Line.e = e /\ l' = l + 1
Put(f, k, v) == [x \in DOMAIN f \cup {k} |-> IF x = k THEN v ELSE f[x]]

TInit == l = 1 /\ st = <<>> /\ sent = <<>> /\ resp = {} /\ inw = "" /\ closing = FALSE /\ early = {}
TReset == IsEvent("Reset") /\ st' = <<>> /\ sent' = <<>> /\ resp' = {} /\ inw' = "" /\ closing' = FALSE /\ early' = {}
TStart == IsEvent("Start") /\ Line.t \notin DOMAIN st
          /\ st' = Put(st, Line.t, "pending") /\ sent' = Put(sent, Line.t, 0) /\ UNCHANGED <<resp, inw, closing, early>>
\* a transmission: only of a pending transaction, the n-th after the (n-1)-th, at most 7
TSent  == IsEvent("Sent") /\ Line.t \in DOMAIN st /\ st[Line.t] = "pending"
          /\ Line.n = sent[Line.t] + 1 /\ Line.n <= 7
          /\ sent' = Put(sent, Line.t, Line.n) /\ UNCHANGED <<st, resp, inw, closing, early>>
TResp  == IsEvent("Resp") /\ resp' = resp \cup {Line.t}
          /\ early' = (IF Line.t \in DOMAIN sent /\ sent[Line.t] >= 1 /\ sent[Line.t] <= 2 /\ st[Line.t] = "pending" THEN early \cup {Line.t} ELSE early)
          /\ UNCHANGED <<st, sent, inw, closing>>
\* completion: once; a response only if one was injected, a timeout only after the 7th transmission
TRet   == IsEvent("Ret") /\ Line.t \in DOMAIN st /\ st[Line.t] = "pending"
          /\ \/ Line.res = "resp" /\ Line.t \in resp
             \/ Line.res = "timeout" /\ sent[Line.t] = 7 /\ Line.t \notin early
             \/ Line.res = "closed" /\ closing /\ inw = ""           \* Close waits for the callback that is inside the write
             \/ Line.res = "writeerr" /\ inw = "" /\ sent[Line.t] >= 2  \* (this driver fails retransmissions only)
          /\ st' = Put(st, Line.t, "done") /\ UNCHANGED <<sent, resp, inw, closing, early>>
TEnd   == IsEvent("End")
          /\ \A t \in DOMAIN st : st[t] = "done"
          /\ Line.outstanding = 0 /\ Line.table = 0
          /\ UNCHANGED <<st, sent, resp, inw, closing, early>>
TWEnter == IsEvent("WriteEnter") /\ inw = "" /\ st[Line.t] = "pending" /\ inw' = Line.t /\ UNCHANGED <<st, sent, resp, closing, early>>
TWExit  == IsEvent("WriteExit") /\ inw = Line.t /\ inw' = "" /\ UNCHANGED <<st, sent, resp, closing, early>>
TCloseCall == IsEvent("CloseCall") /\ closing' = TRUE /\ UNCHANGED <<st, sent, resp, inw, early>>
TCloseRet  == IsEvent("CloseRet") /\ closing /\ inw = "" /\ UNCHANGED <<st, sent, resp, inw, closing, early>>
TEnd2  == IsEvent("End2") /\ Line.outstanding = 0 /\ (\A t \in DOMAIN st : st[t] = "done") /\ UNCHANGED <<st, sent, resp, inw, closing, early>>
TNote  == IsEvent("Note") /\ UNCHANGED <<st, sent, resp, inw, closing, early>>
TNext == TReset \/ TStart \/ TSent \/ TResp \/ TRet \/ TEnd \/ TWEnter \/ TWExit \/ TCloseCall \/ TCloseRet \/ TEnd2 \/ TNote
TSpec == TInit /\ [][TNext]_tvars

Progress == TLCSet(1, IF l > TLCGet(1) THEN l ELSE TLCGet(1))
ASSUME TLCSet(1, 0)
Accepted ==
  IF TLCGet(1) = Len(Tr) + 1 THEN PrintT("TRACE ACCEPTED " \o ToString(Len(Tr)))
  ELSE /\ PrintT("TRACE REJECTED at line " \o ToString(TLCGet(1)) \o " of " \o ToString(Len(Tr)))
       /\ PrintT(Tr[TLCGet(1)])
       /\ FALSE
=============================================================================
