SPECIFICATION TSpec
CONSTANTS
  TraceFile = "trace.ndjson"
  Arrivals = FALSE
CONSTRAINT Progress
POSTCONDITION Accepted
CHECK_DEADLOCK FALSE
