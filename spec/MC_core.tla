------------------------------ MODULE MC_core ------------------------------
(* Shared model-checking / generation wrapper for TurnServer: constants that *)
(* cannot be written in a cfg file, the depth bound and the edge printer.    *)
EXTENDS TurnServer, Json

CONSTANTS MaxDepth

MCFam       == [i \in PeerIPs |-> IF i \in {"X", "Y"} THEN 6 ELSE 4]
MCListenFam == [c \in Clients |-> IF c = "c6" THEN 6 ELSE 4]
MCDenied    == {<<"c1", "B">>}
MCNoDenied  == {}
MCVetoable  == {<<"c1", "A">>}
MCDeniedV6  == {<<"c6", "Y">>, <<"c1", "A">>}      \* the operator's handler refuses an IPv6 peer (and an IPv4 one)
MCPermSeqs1 == {<<i>> : i \in PeerIPs}
MCPermSeqs2 == MCPermSeqs1 \cup {<<"A", "B">>, <<"B", "A">>, <<"A", "X">>}
MCLifeAbsent  == {-1}
MCLenSmall    == {-1}
MCLensMTU     == {0, 1, 3, 4, 5, 8, 1499, 1500, 1560, 1561, 1592, 1593, 1599, 1600, 1601, 65507}
MCLensMTU1200 == {0, 1, 1160, 1161, 1192, 1193, 1199, 1200, 1600, 1601}
MCLifeTime    == {-1, 0, 2, 3599, 3600, 2147483647}
MCLifeAbsent0 == {-1, 0}
MCPermSeqsAB  == {<<"A">>, <<"B">>, <<"A", "B">>}
MCLifeSmall   == {-1, 0, 2}

DepthBound == TLCGet("level") <= MaxDepth

\* the constants of this configuration, for the harness (printed once at start-up)
ASSUME PrintT("META " \o ToJson([DefaultLife |-> DefaultLife, PermTO |-> PermTO, ChanTO |-> ChanTO,
                                 MaxLife |-> MaxLife, Strict |-> Strict, Denied |-> Denied, Fam |-> Fam,
                                 ListenFam |-> ListenFam, Clients |-> Clients, Users |-> Users,
                                 PeerPorts |-> PeerPorts, QuotaDenied |-> QuotaDenied, InboundMTU |-> InboundMTU]))

\* Engine A: print every edge of the state graph (also those into states already seen)
EmitEdge ==
  PrintT("EDGE " \o ToJson([s |-> <<alloc, perm, chan, resv, veto>>, a |-> last', o |-> out',
                            t |-> <<alloc', perm', chan', resv', veto'>>]))
=============================================================================
