\* GEN_relayA -- generated by mkcfg.py; one client: permissions, channels, both data paths, expiry (perm 2, chan 3, life 5)
SPECIFICATION Spec
VIEW View
CONSTANTS
  Clients = {"c1"}
  Users = {"u1"}
  PeerIPs = {"A", "B"}
  PeerPorts = {1, 2}
  Fam <- MCFam
  ListenFam <- MCListenFam
  Strict = FALSE
  ReqFams = {0}
  ChanNums = {16384, 16385}
  LifeReqs <- MCLifeAbsent
  Txids = {"t1"}
  Pays = {"p"}
  Lens <- MCLenSmall
  InboundMTU = 1600
  PermSeqs <- MCPermSeqsAB
  DefaultLife = 5
  PermTO = 2
  ChanTO = 3
  MaxLife = 3600
  Denied <- MCNoDenied
  Vetoable = {}
  Toks = {"none"}
  ResvTO = 30
  QuotaDenied = {}
  MaxDepth = 6
CONSTRAINT DepthBound
ACTION_CONSTRAINT EmitEdge
