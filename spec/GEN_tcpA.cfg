SPECIFICATION Spec
VIEW View
CHECK_DEADLOCK FALSE
CONSTANTS
  Clients = {"c1"}
  Users = {"u1", "u2"}
  PeerIPs = {"A", "B"}
  PeerPorts = {1, 2}
  Denied <- MCDenied
  Listening <- MCListening
  MaxConns = 3
  DefaultLife = 100
  PermTO = 40
  BindTO = 30
  SlowDial = TRUE
  MaxDepth = 6
CONSTRAINT DepthBound

ACTION_CONSTRAINT EmitEdge
