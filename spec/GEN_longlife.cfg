\* GEN_longlife -- generated by mkcfg.py; default allocation lifetime 2 h, above the one-hour ceiling of requested lifetimes
SPECIFICATION Spec
VIEW View
CONSTANTS
  Clients = {"c1"}
  Users = {"u1"}
  PeerIPs = {"A"}
  PeerPorts = {1}
  Fam <- MCFam
  ListenFam <- MCListenFam
  Strict = FALSE
  ReqFams = {0}
  ChanNums = {16384}
  LifeReqs <- MCLifeTime
  Txids = {"t1", "t2"}
  Pays = {"p"}
  Lens <- MCLenSmall
  InboundMTU = 1600
  PermSeqs <- MCPermSeqs1
  DefaultLife = 7200
  PermTO = 300
  ChanTO = 600
  MaxLife = 3600
  Denied <- MCNoDenied
  Vetoable = {}
  Toks = {"none"}
  ResvTO = 30
  QuotaDenied = {}
  MaxDepth = 4
CONSTRAINT DepthBound
ACTION_CONSTRAINT EmitEdge
