SPECIFICATION Spec
VIEW View
CHECK_DEADLOCK FALSE
CONSTANTS
  Clients = {"c1", "c2"}
  Users = {"u1", "u2"}
  PeerIPs = {"A", "B"}
  PeerPorts = {1}
  Denied <- MCDenied
  Listening <- MCListening
  MaxConns = 2
  DefaultLife = 100
  PermTO = 40
  BindTO = 30
  SlowDial = FALSE
  MaxDepth = 5
CONSTRAINT DepthBound

ACTION_CONSTRAINT EmitEdge
