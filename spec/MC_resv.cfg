\* MC_resv -- generated by mkcfg.py; EVEN-PORT / RESERVATION-TOKEN: reservations, their 30 s life, token use by any client
SPECIFICATION Spec
VIEW View
CONSTANTS
  Clients = {"c1", "c2"}
  Users = {"u1"}
  PeerIPs = {"A"}
  PeerPorts = {1}
  Fam <- MCFam
  ListenFam <- MCListenFam
  Strict = FALSE
  ReqFams = {0, 4}
  ChanNums = {16384}
  LifeReqs <- MCLifeAbsent0
  Txids = {"t1", "t2"}
  Pays = {"p"}
  Lens <- MCLenSmall
  InboundMTU = 1600
  PermSeqs <- MCPermSeqs1
  DefaultLife = 40
  PermTO = 35
  ChanTO = 35
  MaxLife = 3600
  Denied <- MCNoDenied
  Vetoable = {}
  Toks = {"none", "even", "bogus", "c1", "c2"}
  ResvTO = 30
  QuotaDenied = {}
  MaxDepth = 6
CONSTRAINT DepthBound
INVARIANTS TypeOK C01_NeverInstalled NoOrphans C08_Bijection C08_Range C19_ReservedOnce
PROPERTIES C01_OnlyAuthorised C01_AskedEveryTime C02_OnlyPermitted C04_Isolation C05_WithinLimitsDelivered C06_Exact C07_FullRestart C08_Conflict400 C19_SecondAllocate C19_TokenNeedsReservation
