------------------------------- MODULE Nonce -------------------------------
(***************************************************************************)
(* The two nonce managers (internal/server/nonce.go: 8-byte millisecond     *)
(* timestamp + full HMAC, hex; internal/server/short_nonce.go: 4-byte       *)
(* minute timestamp + HMAC truncated to hlen bytes, base36) as one          *)
(* decision table with a little state: a nonce is minted, time passes, and  *)
(* the nonce -- or a mutation of it -- is presented.                        *)
(* C03: accepted iff minted by this instance, unmodified, within the last   *)
(* hour.  The implementations differ in granularity (ms / minute), which    *)
(* the property does not fix: ages 3601..3659 s are a grey band that the    *)
(* ladder of ages never enters.                                             *)
(***************************************************************************)
EXTENDS Integers, Sequences, TLC, Json

CONSTANTS HmacLens,   \* truncation lengths of the short implementation
          Ladder,     \* sequence of ages (seconds) at which the nonce is presented
          Muts        \* mutations

VARIABLES impl, hlen, minted, rung, out, last
vars == <<impl, hlen, minted, rung, out, last>>

Age == IF rung = 0 THEN 0 ELSE Ladder[rung]
Lifetime == 3600

Init ==
  /\ \/ (impl = "long" /\ hlen = 32)
     \/ (impl = "short" /\ hlen \in HmacLens)
  /\ minted = FALSE /\ rung = 0 /\ out = {} /\ last = [a |-> "Init"]

Mint ==
  /\ ~minted
  /\ minted' = TRUE /\ rung' = 0
  /\ out' = {[k |-> "minted"]} /\ last' = [a |-> "Mint"]
  /\ UNCHANGED <<impl, hlen>>

Tick ==
  /\ minted /\ rung < Len(Ladder)
  /\ rung' = rung + 1
  /\ out' = {} /\ last' = [a |-> "Tick", d |-> Ladder[rung + 1] - Age]
  /\ UNCHANGED <<impl, hlen, minted>>

\* the decision: what Validate must answer
Accepts(mut, age) == mut = "none" /\ age <= Lifetime

Present(mut) ==
  /\ minted
  /\ out' = {[k |-> "verdict", ok |-> Accepts(mut, Age)]}
  /\ last' = [a |-> "Present", mut |-> mut, age |-> Age]
  /\ UNCHANGED <<impl, hlen, minted, rung>>

Next == Mint \/ Tick \/ \E m \in Muts : Present(m)
Spec == Init /\ [][Next]_vars
View == <<impl, hlen, minted, rung>>

\* C03 (nonce clause): only an unmodified nonce of this instance, at most one hour old, is accepted
C03_NonceOK ==
  [][\A o \in out' : (o.k = "verdict" /\ o.ok) => (last'.mut = "none" /\ last'.age <= Lifetime /\ minted)]_vars
C03_FreshAccepted ==
  [][(last'.a = "Present" /\ last'.mut = "none" /\ last'.age <= Lifetime) => out' = {[k |-> "verdict", ok |-> TRUE]}]_vars
GreyBandAvoided == \A i \in 1..Len(Ladder) : Ladder[i] <= Lifetime \/ Ladder[i] >= Lifetime + 60

MCLadder == <<59, 1800, 3540, 3599, 3600, 3660, 3661, 7200, 90000>>
MCMuts == {"none", "flipFirst", "flipLast", "flipMid", "trunc", "extend", "extendLong", "prefix", "badchars", "otherKey", "empty", "spaces"}
ASSUME PrintT("META " \o ToJson([Sys |-> "nonce"]))
EmitEdge ==
  PrintT("EDGE " \o ToJson([s |-> [impl |-> impl, hlen |-> hlen, minted |-> minted, rung |-> rung], a |-> last', o |-> out',
                            t |-> [impl |-> impl', hlen |-> hlen', minted |-> minted', rung |-> rung']]))
=============================================================================
