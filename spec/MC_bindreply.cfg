SPECIFICATION Spec
VIEW View
CHECK_DEADLOCK FALSE
CONSTANTS
  Streams <- MCBindStreams
  Mode = "bindreply"
INVARIANTS C10_Prefix C10_Prompt C10_Progress
