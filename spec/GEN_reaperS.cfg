SPECIFICATION Spec
VIEW View
CONSTANTS
  Life = 5
  MaxGen = 3
  Stream = TRUE
  MaxDepth = 8
CONSTRAINT DepthBound
ACTION_CONSTRAINT EmitEdge
CHECK_DEADLOCK FALSE
