-------------------------- MODULE TurnServerSteps --------------------------
(***************************************************************************)
(* Refinement of TurnServer.tla to the critical sections of the code, for   *)
(* one allocation, one peer IP and one channel: what can happen when a      *)
(* request is in flight while timers fire and the allocation is torn down.  *)
(*                                                                         *)
(* Processes (each step runs from one scheduling mark of the code to the    *)
(* next; the marks are the verifhook.At calls and the operator call-outs):  *)
(*   H   a CreatePermission ("cp") or ChannelBind ("cb") handler that has   *)
(*       authenticated and holds its *Allocation                            *)
(*   TP  the permission's timer callback   (Permission.start)               *)
(*   TC  the channel's timer callback      (ChannelBind.start)              *)
(*   TA  the allocation's timer callback   (Manager.DeleteAllocation)       *)
(* Locks: Allocation.channelBindingsLock (clock) is the only lock held      *)
(* across marks (AddChannelBind keeps it while it calls AddPermission and   *)
(* the created callbacks); the permission lock and the manager lock are     *)
(* taken and released inside single steps.                                  *)
(*                                                                         *)
(* The model is faithful to the code, including two behaviours that the     *)
(* properties do not want (named, and reported as known findings when a     *)
(* replay exercises them):                                                  *)
(*   LateInstall   (D11) the handler installs into an allocation that was   *)
(*                 closed while it was in flight; success is answered       *)
(*   RefreshRace   (D14) a refresh re-arms a timer whose callback is        *)
(*                 already pending; the callback then deletes the entry     *)
(***************************************************************************)
EXTENDS Integers, Sequences, FiniteSets, TLC, Json

VARIABLES hk,          \* handler kind: "cp" | "cb"
          pcH, pcTP, pcTC, pcTA,
          mapped, closed,        \* allocation: in the manager's table / Close has run
          perm, ptimer,          \* permission entry, its timer: none | armed | fired | stopped
          chn, ctimer,           \* channel entry, its timer
          clock,                 \* channelBindingsLock: "free" | "H"
          found,                 \* what the handler's lookups saw: [perm, chn]
          evs, resp, crashed
vars == <<hk, pcH, pcTP, pcTC, pcTA, mapped, closed, perm, ptimer, chn, ctimer, clock, found, evs, resp, crashed>>

\* initial situations: which entries exist and which timers are due (their callbacks parked at entry)
Init ==
  /\ hk \in {"cp", "cb"}
  /\ perm \in {"absent", "present"} /\ chn \in {"absent", "present"}
  /\ (chn = "present" => perm = "present")                 \* a channel always came with a permission
  /\ pcTP \in (IF perm = "present" THEN {"idle", "E0"} ELSE {"idle"})
  /\ pcTC \in (IF chn = "present" THEN {"idle", "E0"} ELSE {"idle"})
  /\ pcTA \in {"idle", "E0"}
  /\ ptimer = (IF perm = "absent" THEN "none" ELSE IF pcTP = "E0" THEN "fired" ELSE "armed")
  /\ ctimer = (IF chn = "absent" THEN "none" ELSE IF pcTC = "E0" THEN "fired" ELSE "armed")
  /\ pcH = (IF hk = "cp" THEN "G0" ELSE "B0")
  /\ mapped = TRUE /\ closed = FALSE /\ clock = "free"
  /\ found = [perm |-> FALSE, chn |-> FALSE]
  /\ evs = <<>> /\ resp = "none" /\ crashed = FALSE

Ev(e) == evs' = Append(evs, e)

------------------------------------------------------------------------------
(* Allocation.AddPermission from the mark after its lookup *)
PermRefresh ==      \* existedPermission.refresh: Timer.Reset on the object found by the lookup
  /\ ptimer' = IF perm = "present" \/ ptimer \in {"fired", "stopped"} THEN "armed" ELSE ptimer
PermInsert ==       \* lock; table[ip] = new permission with an armed timer; unlock
  /\ perm' = "present" /\ ptimer' = "armed"

(* CreatePermission handler *)
Hcp_lookup ==       \* back from the permission handler call-out; RLock lookup
  /\ hk = "cp" /\ pcH = "G0"
  /\ found' = [found EXCEPT !.perm = (perm = "present")]
  /\ pcH' = IF perm = "present" THEN "G1r" ELSE "G1i"
  /\ UNCHANGED <<hk, pcTP, pcTC, pcTA, mapped, closed, perm, ptimer, chn, ctimer, clock, evs, resp, crashed>>
Hcp_refresh ==
  /\ hk = "cp" /\ pcH = "G1r"
  /\ PermRefresh /\ resp' = "ok" /\ pcH' = "done"
  /\ UNCHANGED <<hk, pcTP, pcTC, pcTA, mapped, closed, perm, chn, ctimer, clock, found, evs, crashed>>
Hcp_insert ==
  /\ hk = "cp" /\ pcH = "G1i"
  /\ PermInsert /\ pcH' = "G2"
  /\ UNCHANGED <<hk, pcTP, pcTC, pcTA, mapped, closed, chn, ctimer, clock, found, evs, resp, crashed>>
Hcp_event ==        \* back from OnPermissionCreated; answer
  /\ hk = "cp" /\ pcH = "G2"
  /\ Ev("perm+") /\ resp' = "ok" /\ pcH' = "done"
  /\ UNCHANGED <<hk, pcTP, pcTC, pcTA, mapped, closed, perm, ptimer, chn, ctimer, clock, found, crashed>>

(* ChannelBind handler: Allocation.AddChannelBind *)
Hcb_lookup ==       \* enters AddChannelBind, about to call GetChannelByNumber
  /\ hk = "cb" /\ pcH = "B0"
  /\ pcH' = "B0a"
  /\ UNCHANGED <<hk, pcTP, pcTC, pcTA, mapped, closed, perm, ptimer, chn, ctimer, clock, found, evs, resp, crashed>>
Hcb_bynumber ==     \* GetChannelByNumber (read lock taken and released): decides new / refresh
  /\ hk = "cb" /\ pcH = "B0a" /\ clock = "free"
  /\ found' = [found EXCEPT !.chn = (chn = "present")]
  /\ pcH' = "B0b"
  /\ UNCHANGED <<hk, pcTP, pcTC, pcTA, mapped, closed, perm, ptimer, chn, ctimer, clock, evs, resp, crashed>>
Hcb_byaddr ==       \* GetChannelByAddr (read lock taken and released): same number and peer, no conflict
  /\ hk = "cb" /\ pcH = "B0b" /\ clock = "free"
  /\ pcH' = "B1"
  /\ UNCHANGED <<hk, pcTP, pcTC, pcTA, mapped, closed, perm, ptimer, chn, ctimer, clock, found, evs, resp, crashed>>
Hcb_apply ==        \* new: Lock, append, start timer, then AddPermission's lookup; refresh: Reset, then the lookup
  /\ hk = "cb" /\ pcH = "B1"
  /\ IF found.chn
       THEN /\ ctimer' = IF chn = "present" \/ ctimer \in {"fired", "stopped"} THEN "armed" ELSE ctimer
            /\ UNCHANGED <<chn, clock>>
       ELSE /\ clock = "free" /\ clock' = "H"
            /\ chn' = "present" /\ ctimer' = "armed"
  /\ found' = [found EXCEPT !.perm = (perm = "present")]
  /\ pcH' = IF perm = "present" THEN "B2r" ELSE "B2i"
  /\ UNCHANGED <<hk, pcTP, pcTC, pcTA, mapped, closed, perm, ptimer, evs, resp, crashed>>
Hcb_permrefresh ==
  /\ hk = "cb" /\ pcH = "B2r"
  /\ PermRefresh
  /\ IF found.chn THEN resp' = "ok" /\ pcH' = "done" ELSE pcH' = "B4" /\ UNCHANGED resp
  /\ UNCHANGED <<hk, pcTP, pcTC, pcTA, mapped, closed, perm, chn, ctimer, clock, found, evs, crashed>>
Hcb_perminsert ==
  /\ hk = "cb" /\ pcH = "B2i"
  /\ PermInsert /\ pcH' = "B3"
  /\ UNCHANGED <<hk, pcTP, pcTC, pcTA, mapped, closed, chn, ctimer, clock, found, evs, resp, crashed>>
Hcb_permevent ==    \* back from OnPermissionCreated (channel lock still held on the new-channel path)
  /\ hk = "cb" /\ pcH = "B3"
  /\ Ev("perm+")
  /\ IF found.chn THEN resp' = "ok" /\ pcH' = "done" ELSE pcH' = "B4" /\ UNCHANGED resp
  /\ UNCHANGED <<hk, pcTP, pcTC, pcTA, mapped, closed, perm, ptimer, chn, ctimer, clock, found, crashed>>
Hcb_chanevent ==    \* back from OnChannelCreated; unlock; answer
  /\ hk = "cb" /\ pcH = "B4"
  /\ Ev("chan+") /\ clock' = "free" /\ resp' = "ok" /\ pcH' = "done"
  /\ UNCHANGED <<hk, pcTP, pcTC, pcTA, mapped, closed, perm, ptimer, chn, ctimer, found, crashed>>

(* timer callbacks *)
TP_remove ==        \* Allocation.RemovePermission: removes whatever permission is in the table for that IP
  /\ pcTP = "E0"
  /\ IF perm = "present"
       THEN perm' = "absent" /\ Ev("perm-") /\ ptimer' = (IF ptimer = "fired" THEN "none" ELSE ptimer)
       ELSE UNCHANGED <<perm, evs, ptimer>>
  /\ pcTP' = "done"
  /\ UNCHANGED <<hk, pcH, pcTC, pcTA, mapped, closed, chn, ctimer, clock, found, resp, crashed>>
TC_remove ==        \* Allocation.RemoveChannelBind needs the channel lock
  /\ pcTC = "E0" /\ clock = "free"
  /\ IF chn = "present"
       THEN chn' = "absent" /\ Ev("chan-") /\ ctimer' = (IF ctimer = "fired" THEN "none" ELSE ctimer)
       ELSE UNCHANGED <<chn, evs, ctimer>>
  /\ pcTC' = "done"
  /\ UNCHANGED <<hk, pcH, pcTP, pcTA, mapped, closed, perm, ptimer, clock, found, resp, crashed>>
TA_unmap ==         \* DeleteAllocation, first critical section
  /\ pcTA = "E0"
  /\ mapped' = FALSE /\ pcTA' = "E1"
  /\ UNCHANGED <<hk, pcH, pcTP, pcTC, closed, perm, ptimer, chn, ctimer, clock, found, evs, resp, crashed>>
TA_close ==         \* DeleteAllocation, second critical section: Allocation.Close
  /\ pcTA = "E1" /\ clock = "free"
  /\ closed' = TRUE
  /\ perm' = "absent" /\ chn' = "absent"
  /\ ptimer' = (IF perm = "present" THEN (IF ptimer = "fired" THEN "fired" ELSE "stopped") ELSE ptimer)
  /\ ctimer' = (IF chn = "present" THEN (IF ctimer = "fired" THEN "fired" ELSE "stopped") ELSE ctimer)
  /\ evs' = evs \o (IF perm = "present" THEN <<"perm-">> ELSE <<>>) \o (IF chn = "present" THEN <<"chan-">> ELSE <<>>)
  /\ pcTA' = "E2"
  /\ UNCHANGED <<hk, pcH, pcTP, pcTC, mapped, clock, found, resp, crashed>>
TA_event ==
  /\ pcTA = "E2"
  /\ Ev("alloc-") /\ pcTA' = "done"
  /\ UNCHANGED <<hk, pcH, pcTP, pcTC, mapped, closed, perm, ptimer, chn, ctimer, clock, found, resp, crashed>>

Next == Hcp_lookup \/ Hcp_refresh \/ Hcp_insert \/ Hcp_event
        \/ Hcb_lookup \/ Hcb_bynumber \/ Hcb_byaddr \/ Hcb_apply \/ Hcb_permrefresh \/ Hcb_perminsert \/ Hcb_permevent \/ Hcb_chanevent
        \/ TP_remove \/ TC_remove \/ TA_unmap \/ TA_close \/ TA_event
Spec == Init /\ [][Next]_vars

AllDone == pcH = "done" /\ pcTP \in {"idle", "done"} /\ pcTC \in {"idle", "done"} /\ pcTA \in {"idle", "done"}

(* C18 *)
NoCrash == ~crashed
\* no deadlock: whenever something is unfinished some step is enabled (TLC's deadlock check, with
\* termination allowed)
NoDeadlock == AllDone \/ ENABLED Next
LocksBalanced == AllDone => clock = "free"
\* every request in flight is answered
Answered == AllDone => resp = "ok"

(* what the properties would like, and the named deviations that break it *)
LateInstall == AllDone /\ closed /\ (perm = "present" \/ chn = "present")            \* D11
RefreshRace == AllDone /\ resp = "ok" /\ ~closed                                      \* D14
                 /\ ((hk = "cp" /\ perm = "absent") \/ (hk = "cb" /\ (chn = "absent" \/ perm = "absent")))
C15_NothingInDeadAlloc == ~LateInstall
C07_SuccessMeansInstalled == ~RefreshRace

ASSUME PrintT("META " \o ToJson([Sys |-> "steps"]))
St == [hk |-> hk, pcH |-> pcH, pcTP |-> pcTP, pcTC |-> pcTC, pcTA |-> pcTA, mapped |-> mapped, closed |-> closed,
       perm |-> perm, ptimer |-> ptimer, chn |-> chn, ctimer |-> ctimer, clock |-> clock, found |-> found,
       evs |-> evs, resp |-> resp]
StP == [hk |-> hk', pcH |-> pcH', pcTP |-> pcTP', pcTC |-> pcTC', pcTA |-> pcTA', mapped |-> mapped', closed |-> closed',
        perm |-> perm', ptimer |-> ptimer', chn |-> chn', ctimer |-> ctimer', clock |-> clock', found |-> found',
        evs |-> evs', resp |-> resp']
\* which process moved and from which mark (the harness releases that gate)
Moved == IF pcH' # pcH THEN [proc |-> "H", from |-> pcH, to |-> pcH']
         ELSE IF pcTP' # pcTP THEN [proc |-> "TP", from |-> pcTP, to |-> pcTP']
         ELSE IF pcTC' # pcTC THEN [proc |-> "TC", from |-> pcTC, to |-> pcTC']
         ELSE [proc |-> "TA", from |-> pcTA, to |-> pcTA']
EmitEdge ==
  PrintT("EDGE " \o ToJson([s |-> St, a |-> [a |-> "Step", proc |-> Moved.proc, from |-> Moved.from, to |-> Moved.to,
                                              late |-> (LateInstall)', race |-> (RefreshRace)'],
                            o |-> {}, t |-> StP]))
=============================================================================
