------------------------------ MODULE RelayGen ------------------------------
(***************************************************************************)
(* The three bundled relay address generators                               *)
(* (relay_address_generator_{range,static,none}.go) over a network in which *)
(* a transport port can be bound once.  State = the set of ports handed out *)
(* and still open.  The random source of the port-range generator is        *)
(* abstracted per draw as a class: lowest / highest / middle port of the    *)
(* range, or a port that is already bound (a collision).                    *)
(* C20: advertised port = bound port; the requested port when one is        *)
(* requested, else (range generator) a port inside [MinPort, MaxPort];      *)
(* never a port in use; error iff every one of MaxRetries draws collides;   *)
(* after Close the port can be handed out again.                            *)
(***************************************************************************)
EXTENDS Integers, Sequences, FiniteSets, TLC, Json

CONSTANTS MinPort, MaxPort, MaxRetries,
          Kinds,      \* {"range", "static", "none"}
          Protos,     \* {"udp", "tcp"}
          Fams,       \* {4, 6}
          ReqPorts,   \* explicitly requested ports tried
          Classes     \* {"lo", "hi", "mid", "hit"}

VARIABLES kind, fam, bound, out, last
vars == <<kind, fam, bound, out, last>>

Init == /\ kind \in Kinds /\ fam \in Fams /\ bound = {} /\ out = {} /\ last = [a |-> "Init"]

InUse(proto)  == {b[2] : b \in {x \in bound : x[1] = proto}}
InRange(p)    == p >= MinPort /\ p <= MaxPort
N             == MaxPort - MinPort + 1
MinOf(S)      == CHOOSE m \in S : \A x \in S : m <= x
PortOf(cl, proto) ==
  CASE cl = "lo"  -> MinPort
    [] cl = "hi"  -> MaxPort
    [] cl = "mid" -> MinPort + (N \div 2)
    [] cl = "hit" -> LET hits == {p \in InUse(proto) : InRange(p)}
                     IN IF hits = {} THEN MinPort ELSE MinOf(hits)

\* the port-range generator without a requested port: up to MaxRetries draws
FirstFree(draws, proto) ==
  LET free == {k \in 1..Len(draws) : PortOf(draws[k], proto) \notin InUse(proto)}
  IN IF free = {} THEN 0 ELSE PortOf(draws[MinOf(free)], proto)

AllocRange(proto, draws) ==
  /\ kind = "range"
  /\ LET p == FirstFree(draws, proto) IN
     /\ bound' = IF p = 0 THEN bound ELSE bound \cup {<<proto, p>>}
     /\ out' = {[k |-> "alloc", ok |-> p # 0, port |-> p, adv |-> "relay"]}
     /\ last' = [a |-> "AllocRange", proto |-> proto, draws |-> draws]
  /\ UNCHANGED <<kind, fam>>

\* a requested port (any generator): that port or a clean failure
AllocReq(proto, p) ==
  /\ bound' = IF p \in InUse(proto) THEN bound ELSE bound \cup {<<proto, p>>}
  /\ out' = {[k |-> "alloc", ok |-> p \notin InUse(proto), port |-> (IF p \in InUse(proto) THEN 0 ELSE p),
              adv |-> IF kind = "none" THEN "local" ELSE "relay"]}
  /\ last' = [a |-> "AllocReq", proto |-> proto, port |-> p]
  /\ UNCHANGED <<kind, fam>>

\* static / pass-through generator without a requested port: the system picks a free port (-1)
AllocAny(proto) ==
  /\ kind # "range" /\ -1 \notin InUse(proto)
  /\ bound' = bound \cup {<<proto, -1>>}
  /\ out' = {[k |-> "alloc", ok |-> TRUE, port |-> -1, adv |-> IF kind = "none" THEN "local" ELSE "relay"]}
  /\ last' = [a |-> "AllocAny", proto |-> proto]
  /\ UNCHANGED <<kind, fam>>

Close(proto, p) ==
  /\ <<proto, p>> \in bound
  /\ bound' = bound \ {<<proto, p>>}
  /\ out' = {} /\ last' = [a |-> "Close", proto |-> proto, port |-> p]
  /\ UNCHANGED <<kind, fam>>

\* AllocateConn: the outgoing connection of an RFC 6062 Connect leaves from the relayed address a listener holds (the
\* two sockets share the port).  It binds nothing new in this book-keeping, and what was handed out before is what it
\* was: the allocation's advertised relayed address is not touched by connecting from it.  (IPv4 only: the harness
\* has a second local address there to play the relay address.)
Conn(p) ==
  /\ fam = 4 /\ <<"tcp", p>> \in bound
  /\ out' = {[k |-> "conn", ok |-> TRUE, adv |-> IF kind = "none" THEN "local" ELSE "relay"]}
  /\ last' = [a |-> "Conn", proto |-> "tcp", port |-> p]
  /\ UNCHANGED <<kind, fam, bound>>

AllDraws == [1..MaxRetries -> Classes]
Next ==
  \/ \E proto \in Protos, d \in AllDraws : AllocRange(proto, d)
  \/ \E proto \in Protos, p \in ReqPorts : AllocReq(proto, p)
  \/ \E proto \in Protos : AllocAny(proto)
  \/ \E proto \in Protos, p \in ReqPorts \cup {-1} \cup MinPort..MaxPort : Close(proto, p)
  \/ \E p \in ReqPorts \cup {-1} \cup MinPort..MaxPort : Conn(p)
Spec == Init /\ [][Next]_vars
View == <<kind, fam, bound>>

\* C20
C20_NeverShared ==   \* a port handed out was free before, and is then recorded once
  [][\A o \in out' : (o.k = "alloc" /\ o.ok /\ o.port > 0) =>
        /\ <<last'.proto, o.port>> \notin bound
        /\ <<last'.proto, o.port>> \in bound']_vars
C20_InRange ==
  [][\A o \in out' : (o.k = "alloc" /\ o.ok /\ last'.a = "AllocRange") => InRange(o.port)]_vars
C20_Requested ==
  [][\A o \in out' : (o.k = "alloc" /\ o.ok /\ last'.a = "AllocReq") => o.port = last'.port]_vars
C20_FailOnlyWhenFull ==
  [][\A o \in out' : (o.k = "alloc" /\ ~o.ok /\ last'.a = "AllocRange") =>
        \A k \in 1..MaxRetries : PortOf(last'.draws[k], last'.proto) \in InUse(last'.proto)]_vars

ASSUME PrintT("META " \o ToJson([Sys |-> "relaygen",
          Extra |-> [MinPort |-> ToString(MinPort), MaxPort |-> ToString(MaxPort), MaxRetries |-> ToString(MaxRetries)]]))
EmitEdge ==
  \* (i: this state is being expanded as an INITIAL state -- the empty state is re-entered when everything is released,
  \* so the harness cannot recognise the initial states of the six (kind, family) configurations by their in-degree)
  PrintT("EDGE " \o ToJson([s |-> [kind |-> kind, fam |-> fam, bound |-> bound], a |-> last', o |-> out', i |-> (last.a = "Init"),
                            t |-> [kind |-> kind', fam |-> fam', bound |-> bound']]))
=============================================================================
