\* GEN_quota -- generated by mkcfg.py; user q1 may hold one allocation at a time (counting quota handler): retransmission and second Allocate are answered before the quota is asked
SPECIFICATION Spec
VIEW View
CONSTANTS
  Clients = {"c1", "c2"}
  Users = {"q1", "u1"}
  PeerIPs = {"A"}
  PeerPorts = {1}
  Fam <- MCFam
  ListenFam <- MCListenFam
  Strict = FALSE
  ReqFams = {0}
  ChanNums = {16384}
  LifeReqs <- MCLifeAbsent0
  Txids = {"t1", "t2"}
  Pays = {"p"}
  Lens <- MCLenSmall
  InboundMTU = 1600
  PermSeqs <- MCPermSeqs1
  DefaultLife = 5
  PermTO = 2
  ChanTO = 3
  MaxLife = 3600
  Denied <- MCNoDenied
  Toks = {"none"}
  ResvTO = 30
  QuotaDenied = {}
  MaxDepth = 5
CONSTRAINT DepthBound
ACTION_CONSTRAINT EmitEdge
