SPECIFICATION Spec
ACTION_CONSTRAINT EmitEdge
CHECK_DEADLOCK FALSE
