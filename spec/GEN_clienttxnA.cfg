SPECIFICATION Spec
VIEW View
CHECK_DEADLOCK FALSE
CONSTANTS
  Txns = {"t1", "t2"}
  RTO = 200
  MaxIvl = 1600
  MaxSend = 7
  FineTime = TRUE
  SlowWrites = TRUE
  SlowRtx = "no"
  IgnoreToo = FALSE
  FailAts = {0, 1, 2, 7}
  MaxDepth = 7
CONSTRAINT DepthBound
ACTION_CONSTRAINT EmitEdge
