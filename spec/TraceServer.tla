---------------------------- MODULE TraceServer ----------------------------
(***************************************************************************)
(* Engine B for the relay server: executions recorded from the real         *)
(* turn.Server under CONCURRENT load (harness/server_trace_test.go) are     *)
(* checked against TurnServer.tla.                                          *)
(*                                                                         *)
(* The driver is not derived from the specification.  It works in batches:  *)
(* up to four requests / indications / peer datagrams of different 5-tuples *)
(* are put on the wire back to back, so that the listener goroutines (IPv4, *)
(* IPv6), the connection goroutines of the stream clients s1 and s2 (which  *)
(* share one allocation manager), the relay-socket readers of the           *)
(* allocations involved and the server's tables run concurrently; when everything has settled it records *)
(* what every operation got back (its own response, the datagrams that      *)
(* carried its payload) and the projected tables.  It does not know in      *)
(* which order the server took the operations.                              *)
(*                                                                         *)
(* The trace specification re-uses the actions of TurnServer.tla.  An "Op"  *)
(* line only adds the operation to `pend`.  Before the "Settle" line can be *)
(* consumed every pending operation must have been fired as ONE atomic      *)
(* TurnServer action whose outputs match what that operation observed, in   *)
(* some order (silent steps: TLC searches the orders, i.e. it infers the    *)
(* linearisation), and the tables of the specification must then equal the  *)
(* projected tables of the server.  "Adv" lines advance the count-down      *)
(* timers, split at every deadline in between.                              *)
(***************************************************************************)
EXTENDS TurnServer, Json

CONSTANT TraceFile,
         RelaxFrom, \* Relax applies from this line on only (the prefix of the execution is replayed as it is)
         Relax      \* {} when validating.  After a rejection the driver asks again with one class of observation
                    \* ignored ("topeer", "toclient", "resp:<Method>", "state:alloc" / "state:perm" / "state:chan"):
                    \* the classes whose omission makes the execution acceptable name what was wrong
Tr == ndJsonDeserialize(TraceFile)

VARIABLES l, pend, adv
tvars == <<vars, l, pend, adv>>

TSFam       == [i \in PeerIPs |-> IF i \in {"X", "Y"} THEN 6 ELSE 4]
TSListenFam == [c \in Clients |-> IF c = "c6" THEN 6 ELSE 4]
TSNone      == {}
TSLens      == {-1}
TSLifeReqs  == {-1}
TSPermSeqs  == {}

Line        == Tr[l]
AtLine(e)   == l <= Len(Tr) /\ Line.e = e
Consume     == l' = l + 1
MinOf(a, b) == IF a < b THEN a ELSE b

TInit == Init /\ l = 1 /\ pend = {} /\ adv = 0

TReset == /\ AtLine("Reset") /\ Consume /\ adv = 0
          /\ alloc' = [c \in Clients |-> NoAlloc] /\ perm' = [c \in Clients |-> NoPerms]
          /\ chan' = [c \in Clients |-> NoChans] /\ resv' = [c \in Clients |-> 0] /\ veto' = Denied
          /\ out' = {} /\ last' = [a |-> "Init"] /\ pend' = {} /\ adv' = 0

TNote == AtLine("Note") /\ Consume /\ UNCHANGED <<vars, pend, adv>>

(* an operation of the batch: remembered, not yet taken *)
TOp == /\ AtLine("Op") /\ adv = 0 /\ Consume
       /\ pend' = pend \cup {Line}
       /\ UNCHANGED <<vars, adv>>

Peer(x) == <<x[1], x[2]>>
Act(a) ==
  CASE a.a = "Binding"          -> Binding(a.c)
    [] a.a = "Allocate"         -> Allocate(a.c, a.u, a.lr, a.tx, a.rf, "none")
    [] a.a = "Refresh"          -> Refresh(a.c, a.u, a.lr, a.rf)
    [] a.a = "CreatePermission" -> CreatePermission(a.c, a.u, a.ips)
    [] a.a = "ChannelBind"      -> ChannelBind(a.c, a.u, a.n, Peer(a.p))
    [] a.a = "SendInd"          -> SendInd(a.c, Peer(a.p), a.pay, -1)
    [] a.a = "ChanData"         -> ChanData(a.c, a.n, a.pay, -1)
    [] a.a = "PeerData"         -> PeerData(a.c, Peer(a.p), a.pay, -1)
    [] a.a = "ConnClose"        -> ConnClose(a.c)

(* what the specification's step puts out against what the operation observed: pinned fields only *)
MatchOne(s, o) ==
  /\ s.k = o.k
  /\ CASE s.k = "resp" ->
            /\ s.to = o.to /\ s.m = o.m /\ s.cls = o.cls
            /\ (s.code = 0 \/ s.code = o.code)
            /\ (("life" \in DOMAIN s /\ s.life >= 0) => o.life = s.life)
       [] s.k = "topeer" -> s.from = o.from /\ s.to = Peer(o.to) /\ s.pay = o.pay
       [] s.k = "toclient" ->
            /\ s.to = o.to /\ s.pay = o.pay
            /\ \/ (s.via = "chan" /\ o.via = "chan" /\ s.n = o.n)
               \/ (o.via = "ind" /\ s.peer = Peer(o.peer))     \* the true source named: always acceptable
       [] OTHER -> FALSE
ObsSet(op) == {op.obs[i] : i \in 1..Len(op.obs)}
RelaxNow == IF l >= RelaxFrom THEN Relax ELSE {}
Keep(o) == o.k \notin RelaxNow /\ ~(o.k = "resp" /\ ("resp:" \o o.m) \in RelaxNow)
Match(S0, O0) ==
  LET S  == {s \in S0 : Keep(s)}
      O  == {o \in O0 : Keep(o)}
      O2 == IF S = {} THEN {o \in O : ~(o.k = "resp" /\ o.cls = "err")} ELSE O   \* an error where the spec is silent
  IN /\ Cardinality(S) = Cardinality(O2)
     /\ \A s \in S : \E o \in O2 : MatchOne(s, o)

(* the linearisation point of one pending operation (silent: no line is consumed) *)
Fire == /\ AtLine("Settle") /\ adv = 0
        /\ \E op \in pend :
             /\ Act(op.a)
             /\ Match(out', ObsSet(op))
             /\ pend' = pend \ {op}
        /\ UNCHANGED <<l, adv>>

SeqSet(s) == {s[i] : i \in 1..Len(s)}
\* (a Settle line lists the clients whose tables the driver projected: all of them after a concurrent round,
\* only its own after an operation of a client's private history in the real-time driver)
StateOK(L) ==
  \A c \in Clients \cap DOMAIN L.alloc :
    /\ "state:alloc" \in RelaxNow \/
         /\ L.alloc[c].live = alloc[c].live
         /\ alloc[c].live => (L.alloc[c].user = alloc[c].user /\ L.alloc[c].fam = alloc[c].fam)
    /\ "state:perm" \in RelaxNow \/ SeqSet(L.perm[c]) = {i \in PeerIPs : perm[c][i] > 0}
    /\ "state:chan" \in RelaxNow \/
         {<<x[1], <<x[2], x[3]>>>> : x \in SeqSet(L.chan[c])}
           = {<<n, chan[c][n].peer>> : n \in {m \in ChanNums : chan[c][m].bound}}

TSettle == /\ AtLine("Settle") /\ pend = {} /\ adv = 0 /\ Consume
           /\ StateOK(Line)
           /\ UNCHANGED <<vars, pend, adv>>

(* time: d whole seconds, taken in pieces that end at the next deadline *)
TAdv == /\ AtLine("Adv") /\ pend = {} /\ adv = 0 /\ Consume
        /\ adv' = Line.d /\ UNCHANGED <<vars, pend>>
AdvStep ==
  /\ adv > 0 /\ UNCHANGED <<l, pend>>
  /\ IF Rems = {} THEN adv' = 0 /\ UNCHANGED vars
     ELSE LET d == MinOf(adv, MinRem) IN Advance(d) /\ adv' = adv - d

TNext == TReset \/ TNote \/ TOp \/ Fire \/ TSettle \/ TAdv \/ AdvStep
TSpec == TInit /\ [][TNext]_tvars

\* the properties of TurnServer.tla are checked on every step of every recorded execution
\* (C04_Isolation restated so that the harness's own Reset between executions is not a step of a client)
C04_IsolationT ==
  [][last'.a \notin {"Advance", "Init"} =>
       /\ \A d \in Clients \ Actor :
            alloc'[d] = alloc[d] /\ perm'[d] = perm[d] /\ chan'[d] = chan[d] /\ resv'[d] = resv[d]
       /\ \A o \in out' : (o.k \in {"resp", "toclient"} => o.to \in Actor)
                       /\ (o.k = "topeer" => o.from \in Actor)]_vars
\* attribution runs only ask "is there ONE linearisation that reaches the end": a depth-first search that stops there
\* (TLC reports this invariant as violated: that is the positive answer)
NotDone == l <= Len(Tr)
Progress == TLCSet(1, IF l > TLCGet(1) THEN l ELSE TLCGet(1))
ASSUME TLCSet(1, 0)
Accepted ==
  IF TLCGet(1) = Len(Tr) + 1 THEN PrintT("TRACE ACCEPTED " \o ToString(Len(Tr)))
  ELSE /\ PrintT("TRACE REJECTED at line " \o ToString(TLCGet(1)) \o " of " \o ToString(Len(Tr)))
       /\ PrintT(Tr[TLCGet(1)])
       /\ FALSE
=============================================================================
