----------------------------- MODULE TurnReaper -----------------------------
(***************************************************************************)
(* Stragglers of a torn-down allocation (C06, C15): when an allocation ends *)
(* -- Refresh with lifetime 0, expiry -- the goroutine that reads its relay *)
(* socket is still around until it notices that the socket was closed.      *)
(* Until then the client may already hold a NEW allocation on the same      *)
(* 5-tuple.  The specification says what the code must guarantee: the exit  *)
(* of a dead allocation's reader touches nothing (ReaderExit is UNCHANGED   *)
(* state), in particular not the successor.                                 *)
(*                                                                         *)
(*   gen      number of allocations this 5-tuple has had                    *)
(*   live     the gen-th one is alive, rem seconds of lifetime left         *)
(*   zombies  generations that ended and whose reader has not exited yet    *)
(* The harness makes the moment at which a closed relay socket reports the  *)
(* close to its reader a step of its own (a gate in the in-memory socket),  *)
(* so TLC's interleavings of ReaderExit with the requests are replayed      *)
(* deterministically under virtual time.                                    *)
(***************************************************************************)
EXTENDS Integers, Sequences, FiniteSets, TLC, Json

CONSTANTS Life,      \* allocation lifetime (seconds)
          MaxGen,    \* allocations tried per path
          MaxDepth

VARIABLES gen, live, rem, zombies, out, last
vars  == <<gen, live, rem, zombies, out, last>>
state == <<gen, live, rem, zombies>>

Init == gen = 0 /\ live = FALSE /\ rem = 0 /\ zombies = {} /\ out = {} /\ last = [a |-> "Init"]

Resp(m, cls, life) == [k |-> "resp", m |-> m, cls |-> cls, life |-> life]

Allocate ==
  /\ gen < MaxGen
  /\ last' = [a |-> "Allocate"]
  /\ IF live THEN UNCHANGED state /\ out' = {Resp("Allocate", "err", -1)}          \* 437
     ELSE gen' = gen + 1 /\ live' = TRUE /\ rem' = Life /\ UNCHANGED zombies
          /\ out' = {Resp("Allocate", "ok", Life)}
Refresh ==
  /\ last' = [a |-> "Refresh"]
  /\ IF live THEN rem' = Life /\ UNCHANGED <<gen, live, zombies>> /\ out' = {Resp("Refresh", "ok", Life)}
     ELSE UNCHANGED state /\ out' = {}                                             \* no allocation: dropped
RefreshZero ==
  /\ last' = [a |-> "RefreshZero"]
  /\ IF live THEN live' = FALSE /\ rem' = 0 /\ zombies' = zombies \cup {gen} /\ UNCHANGED gen
                  /\ out' = {Resp("Refresh", "ok", 0)}
     ELSE UNCHANGED state /\ out' = {}
\* time: to one second before the expiry, or to the expiry (the allocation ends: its reader becomes a straggler)
Advance(d) ==
  /\ live /\ d \in {1, rem - 1, rem} /\ d >= 1
  /\ last' = [a |-> "Advance", d |-> d]
  /\ IF d = rem THEN live' = FALSE /\ rem' = 0 /\ zombies' = zombies \cup {gen}
     ELSE rem' = rem - d /\ UNCHANGED <<live, zombies>>
  /\ UNCHANGED gen /\ out' = {}
\* the reader of a dead allocation notices the closed socket and ends: nothing else changes
ReaderExit(g) ==
  /\ g \in zombies
  /\ last' = [a |-> "ReaderExit", g |-> g]
  /\ zombies' = zombies \ {g}
  /\ UNCHANGED <<gen, live, rem>>
  /\ out' = {}

Next == Allocate \/ Refresh \/ RefreshZero \/ (\E d \in 1..Life : Advance(d)) \/ (\E g \in 1..MaxGen : ReaderExit(g))
Spec == Init /\ [][Next]_vars
View == state
DepthBound == TLCGet("level") <= MaxDepth

\* C06: an allocation, once announced with a lifetime, is ended only by Refresh 0 or by the passing of that time
C06_OnlyTimeOrRefreshZero ==
  [][(live /\ ~live') => last'.a \in {"RefreshZero", "Advance"}]_vars
\* C15: a straggler belongs to an allocation that has ended
C15_StragglersAreDead == \A g \in zombies : g < gen \/ (g = gen /\ ~live)

ASSUME PrintT("META " \o ToJson([Sys |-> "reaper", Extra |-> [Life |-> ToString(Life)]]))
EmitEdge == PrintT("EDGE " \o ToJson([s |-> [gen |-> gen, live |-> live, rem |-> rem, zombies |-> zombies], a |-> last', o |-> out',
                                      t |-> [gen |-> gen', live |-> live', rem |-> rem', zombies |-> zombies']]))
=============================================================================
