----------------------------- MODULE TurnReaper -----------------------------
(***************************************************************************)
(* Stragglers of a torn-down allocation (C06, C15): when an allocation ends *)
(* -- Refresh with lifetime 0, expiry -- the goroutine that reads its relay *)
(* socket is still around until it notices that the socket was closed.      *)
(* Until then the client may already hold a NEW allocation on the same      *)
(* 5-tuple.  The specification says what the code must guarantee: the exit  *)
(* of a dead allocation's reader touches nothing (ReaderExit is UNCHANGED   *)
(* state), in particular not the successor.                                 *)
(*                                                                         *)
(*   gen      number of allocations this 5-tuple has had                    *)
(*   live     the gen-th one is alive, rem seconds of lifetime left         *)
(*   zombies  generations that ended and whose reader has not exited yet    *)
(* The harness makes the moment at which a closed relay socket reports the  *)
(* close to its reader a step of its own (a gate in the in-memory socket),  *)
(* so TLC's interleavings of ReaderExit with the requests are replayed      *)
(* deterministically under virtual time.                                    *)
(***************************************************************************)
EXTENDS Integers, Sequences, FiniteSets, TLC, Json

CONSTANTS Life,      \* allocation lifetime (seconds)
          MaxGen,    \* allocations tried per path
          Stream,    \* BOOLEAN: the client is on a stream listener (TCP between client and server)
          MaxDepth

VARIABLES gen, live, rem, zombies, out, last,
          cb,        \* "parked": the Allocate handler is inside the operator's OnAllocationCreated callback, which is slow
          down       \* the server has been closed
vars  == <<gen, live, rem, zombies, cb, down, out, last>>
state == <<gen, live, rem, zombies, cb, down>>

Init == gen = 0 /\ live = FALSE /\ rem = 0 /\ zombies = {} /\ cb = "none" /\ down = FALSE /\ out = {} /\ last = [a |-> "Init"]
\* requests are served one after the other on a 5-tuple: none while the handler of an earlier one is still running
Idle == cb = "none" /\ ~down

Resp(m, cls, life) == [k |-> "resp", m |-> m, cls |-> cls, life |-> life]

Allocate ==
  /\ Idle /\ gen < MaxGen /\ UNCHANGED <<cb, down>>
  /\ last' = [a |-> "Allocate"]
  /\ IF live THEN UNCHANGED state /\ out' = {Resp("Allocate", "err", -1)}          \* 437
     ELSE gen' = gen + 1 /\ live' = TRUE /\ rem' = Life /\ UNCHANGED zombies
          /\ out' = {Resp("Allocate", "ok", Life)}
\* an Allocate whose OnAllocationCreated callback takes its time: the allocation exists (its lifetime is running)
\* while the handler has not answered yet.  Whatever ends the allocation meanwhile ends it; the success that the
\* handler sends when the callback returns is late but harmless (LateSuccess: the properties are silent about it).
AllocateSlow ==
  /\ Idle /\ gen < MaxGen /\ ~live
  /\ last' = [a |-> "AllocateSlow"]
  /\ gen' = gen + 1 /\ live' = TRUE /\ rem' = Life /\ cb' = "parked" /\ UNCHANGED <<zombies, down>>
  /\ out' = {}
\* an Allocate that is held in the operator's AUTH callback: nothing exists yet.  If the server is closed meanwhile, the
\* handler still runs to its end when the callback returns -- whatever it creates then is gone again when its
\* connection's goroutine winds up (a straggler at most), and nothing is left on the closed server.
AllocateSlowAuth ==
  /\ Idle /\ gen < MaxGen /\ ~live
  /\ last' = [a |-> "AllocateSlowAuth"]
  /\ cb' = "auth" /\ UNCHANGED <<gen, live, rem, zombies, down>>
  /\ out' = {}
CallbackDone ==
  /\ cb # "none"
  /\ last' = [a |-> "CallbackDone"]
  /\ cb' = "none" /\ UNCHANGED down
  /\ IF cb = "parked"
       THEN /\ UNCHANGED <<gen, live, rem, zombies>>
            /\ out' = {[k |-> "resp", m |-> "Allocate", cls |-> "ok", life |-> -1, opt |-> down]}   \* (nobody to answer once the server is closed)
       ELSE IF down
         THEN /\ gen' = gen + 1 /\ zombies' = zombies \cup {gen + 1} /\ UNCHANGED <<live, rem>>
              /\ out' = {[k |-> "resp", m |-> "Allocate", cls |-> "ok", life |-> -1, opt |-> TRUE]}
         ELSE /\ gen' = gen + 1 /\ live' = TRUE /\ rem' = Life /\ UNCHANGED zombies
              /\ out' = {[k |-> "resp", m |-> "Allocate", cls |-> "ok", life |-> Life, opt |-> FALSE]}
\* Server.Close: everything ends at once (on a stream listener the manager is closed as soon as the listener is,
\* whatever the connection goroutines are doing)
ServerClose ==
  /\ Stream /\ ~down
  /\ last' = [a |-> "ServerClose"]
  /\ down' = TRUE /\ live' = FALSE /\ rem' = 0
  /\ zombies' = IF live THEN zombies \cup {gen} ELSE zombies
  /\ UNCHANGED <<gen, cb>> /\ out' = {}
Refresh ==
  /\ Idle /\ UNCHANGED <<cb, down>>
  /\ last' = [a |-> "Refresh"]
  /\ IF live THEN rem' = Life /\ UNCHANGED <<gen, live, zombies>> /\ out' = {Resp("Refresh", "ok", Life)}
     ELSE UNCHANGED state /\ out' = {}                                             \* no allocation: dropped
RefreshZero ==
  /\ Idle /\ UNCHANGED <<cb, down>>
  /\ last' = [a |-> "RefreshZero"]
  /\ IF live THEN live' = FALSE /\ rem' = 0 /\ zombies' = zombies \cup {gen} /\ UNCHANGED gen
                  /\ out' = {Resp("Refresh", "ok", 0)}
     ELSE UNCHANGED state /\ out' = {}
\* time: to one second before the expiry, or to the expiry (the allocation ends: its reader becomes a straggler)
Advance(d) ==
  /\ live /\ d \in {1, rem - 1, rem} /\ d >= 1 /\ UNCHANGED <<cb, down>>
  /\ last' = [a |-> "Advance", d |-> d]
  /\ IF d = rem THEN live' = FALSE /\ rem' = 0 /\ zombies' = zombies \cup {gen}
     ELSE rem' = rem - d /\ UNCHANGED <<live, zombies>>
  /\ UNCHANGED gen /\ out' = {}
\* the reader of a dead allocation notices the closed socket and ends: nothing else changes
ReaderExit(g) ==
  /\ g \in zombies
  /\ (g = gen => cb = "none")      \* the reader of an allocation is started when the Allocate handler is past the callback
  /\ last' = [a |-> "ReaderExit", g |-> g]
  /\ zombies' = zombies \ {g}
  /\ UNCHANGED <<gen, live, rem, cb, down>>
  /\ out' = {}

Next == Allocate \/ AllocateSlow \/ AllocateSlowAuth \/ CallbackDone \/ ServerClose \/ Refresh \/ RefreshZero \/ (\E d \in 1..Life : Advance(d)) \/ (\E g \in 1..MaxGen : ReaderExit(g))
Spec == Init /\ [][Next]_vars
View == state
DepthBound == TLCGet("level") <= MaxDepth

\* C06: an allocation, once announced with a lifetime, is ended only by Refresh 0 or by the passing of that time
C06_OnlyTimeOrRefreshZero ==
  [][(live /\ ~live') => last'.a \in {"RefreshZero", "Advance", "ServerClose"}]_vars
\* C15: a straggler belongs to an allocation that has ended
C15_StragglersAreDead == \A g \in zombies : g < gen \/ (g = gen /\ ~live)

ASSUME PrintT("META " \o ToJson([Sys |-> "reaper", Extra |-> [Life |-> ToString(Life), Stream |-> ToString(Stream)]]))
EmitEdge == PrintT("EDGE " \o ToJson([s |-> [gen |-> gen, live |-> live, rem |-> rem, zombies |-> zombies, cb |-> cb, down |-> down], a |-> last', o |-> out',
                                      t |-> [gen |-> gen', live |-> live', rem |-> rem', zombies |-> zombies', cb |-> cb', down |-> down']]))
=============================================================================
