SPECIFICATION Spec
VIEW View
CONSTANTS
  Life = 5
  MaxGen = 3
  Stream = TRUE
  MaxDepth = 10
CONSTRAINT DepthBound
INVARIANT C15_StragglersAreDead
PROPERTY C06_OnlyTimeOrRefreshZero
CHECK_DEADLOCK FALSE
