SPECIFICATION Spec
VIEW View
CHECK_DEADLOCK FALSE
CONSTANTS
  Streams <- MCStreams
  Mode = "framer"
ACTION_CONSTRAINT EmitEdge
