SPECIFICATION Spec
VIEW View
CHECK_DEADLOCK FALSE
CONSTANTS
  Mode = "server-udp"
  Shapes <- MCServerUDP
ACTION_CONSTRAINT EmitEdge
