\* GEN_mtu -- generated by mkcfg.py; payload lengths / contents through both encapsulations and both directions
SPECIFICATION Spec
VIEW View
CONSTANTS
  Clients = {"c1"}
  Users = {"u1"}
  PeerIPs = {"A"}
  PeerPorts = {1}
  Fam <- MCFam
  ListenFam <- MCListenFam
  Strict = FALSE
  ReqFams = {0}
  ChanNums = {16384}
  LifeReqs <- MCLifeAbsent
  Txids = {"t1"}
  Pays = {"p", "stunlike", "chanlike", "zeros", "cookie"}
  Lens <- MCLensMTU
  InboundMTU = 1600
  PermSeqs <- MCPermSeqs1
  DefaultLife = 5
  PermTO = 2
  ChanTO = 3
  MaxLife = 3600
  Denied <- MCNoDenied
  Vetoable = {}
  Toks = {"none"}
  ResvTO = 30
  QuotaDenied = {}
  MaxDepth = 4
CONSTRAINT DepthBound
ACTION_CONSTRAINT EmitEdge
