SPECIFICATION Spec
VIEW View
CHECK_DEADLOCK FALSE
CONSTANTS
  Mode = "client"
  Shapes <- MCClient
PROPERTIES C09_Total C09_ClosedOnlyStreams
