\* GEN_iso -- generated by mkcfg.py; three 5-tuples sharing users, peers, channel numbers and transaction ids
SPECIFICATION Spec
VIEW View
CONSTANTS
  Clients = {"c1", "c2", "c3"}
  Users = {"u1"}
  PeerIPs = {"A"}
  PeerPorts = {1}
  Fam <- MCFam
  ListenFam <- MCListenFam
  Strict = FALSE
  ReqFams = {0}
  ChanNums = {16384}
  LifeReqs <- MCLifeAbsent0
  Txids = {"t1"}
  Pays = {"p"}
  Lens <- MCLenSmall
  InboundMTU = 1600
  PermSeqs <- MCPermSeqs1
  DefaultLife = 5
  PermTO = 2
  ChanTO = 3
  MaxLife = 3600
  Denied <- MCNoDenied
  Vetoable = {}
  Toks = {"none"}
  ResvTO = 30
  QuotaDenied = {}
  MaxDepth = 5
CONSTRAINT DepthBound
ACTION_CONSTRAINT EmitEdge
