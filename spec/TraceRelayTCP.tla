--------------------------- MODULE TraceRelayTCP ---------------------------
(***************************************************************************)
(* Engine B for the RFC 6062 relay end to end: the real turn.Client with a  *)
(* TCP allocation (client.TCPAllocation: Dial, Accept, BindConnection, its  *)
(* refresh timers) against the real turn.Server over in-memory streams      *)
(* (harness/relaytcp_trace_test.go).  The ledger:                           *)
(*   perm   peer IPs the application has asked a permission for (by         *)
(*          CreatePermission or by dialling a peer there); the client keeps *)
(*          refreshing them for as long as the allocation lives, so they    *)
(*          never lapse however long the application idles                  *)
(*   conns  open relayed connections: id -> peer, bytes sent / received in  *)
(*          either direction                                                *)
(* What every recorded call must have returned:                             *)
(*   Dial succeeds iff the peer listens and the allocation has no           *)
(*     connection to that peer yet (446 otherwise); the peer sees the       *)
(*     connection come from the relayed address; the application's conn     *)
(*     names the peer and the relayed address;                              *)
(*   a peer that dials the relayed address is handed to Accept iff its IP   *)
(*     has a permission and there is no connection to it yet; otherwise     *)
(*     its connection is closed and Accept times out;                       *)
(*   bytes come out in order, unmodified, whatever the chunking, nothing    *)
(*     before it was sent, and everything when the execution settles;       *)
(*   when one end closes the other end sees the end of the stream;          *)
(*   Close of the allocation removes it and closes what is still open.      *)
(* C16 (binding, copying, closing), C02 (inbound only with a permission),   *)
(* C14 (the client keeps a TCP allocation and its permissions alive).       *)
(***************************************************************************)
EXTENDS Integers, Sequences, FiniteSets, TLC, Json

CONSTANT TraceFile
Tr == ndJsonDeserialize(TraceFile)

VARIABLES l, perm, conns
tvars == <<l, perm, conns>>
Line == Tr[l]
IsEvent(e) == l <= Len(Tr) /\ Line.e = e /\ l' = l + 1
Put(f, k, v) == [x \in DOMAIN f \cup {k} |-> IF x = k THEN v ELSE f[x]]
Del(f, k) == [x \in DOMAIN f \ {k} |-> f[x]]
Has(f) == f \in DOMAIN Line

Dup(p) == \E id \in DOMAIN conns : conns[id].peer = p
NewConn(p) == [peer |-> p, sc2p |-> 0, sp2c |-> 0, rc2p |-> 0, rp2c |-> 0]

TInit  == l = 1 /\ perm = {} /\ conns = <<>>
TReset == IsEvent("Reset") /\ perm' = {} /\ conns' = <<>>

TDial == IsEvent("Dial")
  /\ Line.dup = Dup(Line.peer)                         \* (the driver's own book-keeping agrees)
  /\ Line.ok = (Line.listening /\ ~Dup(Line.peer))
  /\ perm' = perm \cup {Line.ip}                       \* the permission is asked for before the Connect
  /\ (IF Line.ok
       THEN /\ Line.peer_saw = "relay" /\ Line.remote /\ Line.local
            /\ Line.id \notin DOMAIN conns
            /\ conns' = Put(conns, Line.id, NewConn(Line.peer))
       ELSE /\ (Has("stray_open") => ~Line.stray_open)  \* nothing is left open at a peer the client was refused
            /\ UNCHANGED conns)

TPerm == IsEvent("Perm") /\ Line.ok /\ perm' = perm \cup {Line.ip} /\ UNCHANGED conns

TInbound == IsEvent("Inbound")
  /\ ~Line.refused
  /\ Line.dup = Dup(Line.peer)
  /\ Line.accepted = (Line.ip \in perm /\ ~Dup(Line.peer))
  /\ (IF Line.accepted
       THEN /\ Line.from /\ Line.local /\ Line.peer_open
            /\ Line.id \notin DOMAIN conns
            /\ conns' = Put(conns, Line.id, NewConn(Line.peer))
       ELSE Line.peer_closed /\ UNCHANGED conns)
  /\ UNCHANGED perm

TSend == IsEvent("Send") /\ Line.id \in DOMAIN conns /\ Line.ok
  /\ conns' = [conns EXCEPT ![Line.id] =
                 IF Line.dir = "c2p" THEN [@ EXCEPT !.sc2p = @ + Line.n] ELSE [@ EXCEPT !.sp2c = @ + Line.n]]
  /\ UNCHANGED perm
\* bytes that arrived: the right ones (ok: compared with the stream by the driver), not more than were sent
TRecv == IsEvent("Recv") /\ Line.id \in DOMAIN conns /\ Line.ok
  /\ (LET c == conns[Line.id] IN
       IF Line.dir = "c2p" THEN c.rc2p + Line.n <= c.sc2p ELSE c.rp2c + Line.n <= c.sp2c)
  /\ conns' = [conns EXCEPT ![Line.id] =
                 IF Line.dir = "c2p" THEN [@ EXCEPT !.rc2p = @ + Line.n] ELSE [@ EXCEPT !.rp2c = @ + Line.n]]
  /\ UNCHANGED perm
TSettle == IsEvent("Settle")
  /\ \A id \in DOMAIN conns : conns[id].rc2p = conns[id].sc2p /\ conns[id].rp2c = conns[id].sp2c
  /\ UNCHANGED <<perm, conns>>
TClose == IsEvent("Close") /\ Line.id \in DOMAIN conns /\ Line.eof
  /\ conns' = Del(conns, Line.id) /\ UNCHANGED perm
TIdle == IsEvent("Idle") /\ UNCHANGED <<perm, conns>>
TEnd  == IsEvent("End") /\ Line.count_before = 1 /\ Line.count_after = 0 /\ Line.peer_conns_still_open = 0
         /\ UNCHANGED <<perm, conns>>
\* ("Stuck" lines -- a call that did not return -- have no action: they end the replay)
TNext == TReset \/ TDial \/ TPerm \/ TInbound \/ TSend \/ TRecv \/ TSettle \/ TClose \/ TIdle \/ TEnd
TSpec == TInit /\ [][TNext]_tvars

Progress == TLCSet(1, IF l > TLCGet(1) THEN l ELSE TLCGet(1))
ASSUME TLCSet(1, 0)
Accepted ==
  IF TLCGet(1) = Len(Tr) + 1 THEN PrintT("TRACE ACCEPTED " \o ToString(Len(Tr)))
  ELSE /\ PrintT("TRACE REJECTED at line " \o ToString(TLCGet(1)) \o " of " \o ToString(Len(Tr)))
       /\ PrintT(Tr[TLCGet(1)])
       /\ FALSE
=============================================================================
