#!/usr/bin/env python3
"""Writes the TLC configuration files of the TurnServer family from one table.
Run in /verif/spec after editing; the generated *.cfg files are committed."""
import os

HERE = os.path.dirname(os.path.abspath(__file__))

BASE = dict(
    Clients='{"c1"}', Users='{"u1"}', PeerIPs='{"A", "B"}', PeerPorts='{1, 2}',
    Fam='<- MCFam', ListenFam='<- MCListenFam', Strict='FALSE', ReqFams='{0}',
    ChanNums='{16384, 16385}', LifeReqs='<- MCLifeAbsent', Txids='{"t1"}', Pays='{"p"}',
    Lens='<- MCLenSmall', InboundMTU='1600', PermSeqs='<- MCPermSeqs1',
    DefaultLife='5', PermTO='2', ChanTO='3', MaxLife='3600', Denied='<- MCNoDenied', Vetoable='{}', Toks='{"none"}', ResvTO='30', QuotaDenied='{}', MaxDepth='6',
)

INVS = "TypeOK C01_NeverInstalled NoOrphans C08_Bijection C08_Range C19_ReservedOnce"
PROPS = ("C01_OnlyAuthorised C01_AskedEveryTime C02_OnlyPermitted C04_Isolation C05_WithinLimitsDelivered C06_Exact "
         "C07_FullRestart C08_Conflict400 C19_SecondAllocate C19_TokenNeedsReservation")

CFGS = {
    # ---- exhaustive model checking (invariants + action properties) -----------------------
    "MC_relay": dict(kind="mc", doc="relay family: 2 clients, 2 users, veto, wrong family, invalid channel number",
                     Clients='{"c1", "c2"}', Users='{"u1", "u2"}', PeerIPs='{"A", "B", "X"}', ReqFams='{0, 6}',
                     ChanNums='{16384, 16385, 1, 49152}', LifeReqs='<- MCLifeAbsent0', PermSeqs='<- MCPermSeqs2',
                     Denied='<- MCDenied', MaxDepth='6'),
    "MC_relayB": dict(kind="mc", doc="channel timeout shorter than the permission timeout",
                      PeerIPs='{"A", "B"}', LifeReqs='<- MCLifeAbsent0', PermSeqs='<- MCPermSeqsAB',
                      PermTO='3', ChanTO='2', MaxDepth='8'),
    "MC_time": dict(kind="mc", doc="lifetimes: every LIFETIME class, refreshes, expiry",
                    ReqFams='{0, 6}', PeerIPs='{"A"}', PeerPorts='{1}', ChanNums='{16384}', LifeReqs='<- MCLifeTime',
                    Txids='{"t1", "t2"}', MaxDepth='8'),
    "MC_iso": dict(kind="mc", doc="three 5-tuples (same IP other port, other IP), shared users, peers, numbers, txids; u2 over quota",
                   Clients='{"c1", "c2", "c3"}', Users='{"u1", "u2"}', QuotaDenied='{"u2"}', PeerIPs='{"A"}', ChanNums='{16384}',
                   LifeReqs='<- MCLifeAbsent0', MaxDepth='5'),
    "MC_v6": dict(kind="mc", doc="IPv6 listener and peers, REQUESTED-ADDRESS-FAMILY classes, vetoed IPv6 peer",
                  Clients='{"c1", "c6"}', PeerIPs='{"A", "X", "Y"}', PeerPorts='{1}', ReqFams='{0, 4, 6, 9}', Denied='<- MCDeniedV6',
                  ChanNums='{16384}', PermSeqs='<- MCPermSeqs1', MaxDepth='6'),
    "MC_mtu": dict(kind="mc", doc="payload lengths around the padding and buffer boundaries",
                   PeerIPs='{"A"}', PeerPorts='{1}', ChanNums='{16384}', Lens='<- MCLensMTU',
                   Pays='{"p", "stunlike", "chanlike", "zeros", "cookie"}', MaxDepth='4'),
    "MC_resv": dict(kind="mc", doc="EVEN-PORT / RESERVATION-TOKEN: reservations, their 30 s life, token use by any client",
                    Clients='{"c1", "c2"}', PeerIPs='{"A"}', PeerPorts='{1}', ChanNums='{16384}', ReqFams='{0, 4}',
                    LifeReqs='<- MCLifeAbsent0', Txids='{"t1", "t2"}', Toks='{"none", "even", "bogus", "c1", "c2"}',
                    DefaultLife='40', PermTO='35', ChanTO='35', ResvTO='30', MaxDepth='6'),
    "MC_quota": dict(kind="mc", doc="counting quota: q1 holds at most one allocation",
                     Clients='{"c1", "c2"}', Users='{"q1", "u1"}', PeerIPs='{"A"}', PeerPorts='{1}', ChanNums='{16384}',
                     LifeReqs='<- MCLifeAbsent0', Txids='{"t1", "t2"}', MaxDepth='6'),
    "MC_stream": dict(kind="mc", doc="a datagram client and a stream client with the same IP and port (5-tuples differ in the transport only); the control connection closes",
                      Clients='{"c1", "s1"}', PeerIPs='{"A"}', PeerPorts='{1}', ChanNums='{16384}', LifeReqs='<- MCLifeAbsent0', MaxDepth='6'),
    "MC_stream2": dict(kind="mc", doc="two stream clients with the same IP and port on two stream listeners (5-tuples differ in the server address only); either connection closes",
                       Clients='{"s1", "sx"}', PeerIPs='{"A"}', PeerPorts='{1}', ChanNums='{16384}', LifeReqs='<- MCLifeAbsent0', MaxDepth='6'),
    "MC_veto": dict(kind="mc", doc="the operator's verdict about (c1, A) changes at run time: installed entries live out their time, refreshes are refused",
                    PeerIPs='{"A", "B"}', PeerPorts='{1}', ChanNums='{16384}', PermSeqs='<- MCPermSeqs1', Vetoable='<- MCVetoable', MaxDepth='8'),
    "MC_longlife": dict(kind="mc", doc="an operator whose default allocation lifetime (2 h) is above the one-hour ceiling of requested lifetimes",
                        PeerIPs='{"A"}', PeerPorts='{1}', ChanNums='{16384}', LifeReqs='<- MCLifeTime', Txids='{"t1", "t2"}',
                        DefaultLife='7200', PermTO='300', ChanTO='600', MaxDepth='6'),
    "MC_stream3": dict(kind="mc", doc="two stream clients with the same IP and port connected to two local IPs of one wildcard listener (5-tuples differ in the server IP only)",
                       Clients='{"s1", "sy"}', PeerIPs='{"A"}', PeerPorts='{1}', ChanNums='{16384}', LifeReqs='<- MCLifeAbsent0', MaxDepth='6'),
    # ---- Engine A generation slices (every edge printed) ----------------------------------
    "GEN_relayA": dict(kind="gen", doc="one client: permissions, channels, both data paths, expiry (perm 2, chan 3, life 5)",
                       PermSeqs='<- MCPermSeqsAB', MaxDepth='6'),
    "GEN_relayB": dict(kind="gen", doc="channel timeout shorter than the permission timeout (perm 3, chan 2)",
                       PermSeqs='<- MCPermSeqsAB', PermTO='3', ChanTO='2', MaxDepth='6'),
    "GEN_relayD": dict(kind="gen", doc="two clients, operator veto for (c1,B), IPv6 peer, invalid channel number",
                       Clients='{"c1", "c2"}', PeerIPs='{"A", "B", "X"}', PeerPorts='{1}', ReqFams='{0}',
                       ChanNums='{16384, 1, 32768, 49152, 65535}', PermSeqs='<- MCPermSeqs2', Denied='<- MCDenied', MaxDepth='5'),
    "GEN_time": dict(kind="gen", doc="allocation lifetime classes, refresh (also with a REQUESTED-ADDRESS-FAMILY), delete, expiry",
                     ReqFams='{0, 6}', PeerIPs='{"A"}', PeerPorts='{1}', ChanNums='{16384}', LifeReqs='<- MCLifeTime',
                     Txids='{"t1", "t2"}', MaxDepth='5'),
    "GEN_users": dict(kind="gen", doc="two users whose names differ in case only, on one 5-tuple: ownership checks on every method; U1 is over its allocation quota",
                      Users='{"u1", "U1"}', QuotaDenied='{"U1"}', PeerIPs='{"A"}', PeerPorts='{1}', ChanNums='{16384}',
                      LifeReqs='<- MCLifeAbsent0', Txids='{"t1", "t2"}', MaxDepth='5'),
    "GEN_users2": dict(kind="gen", doc="two users on one 5-tuple, nobody over quota: a second user's Allocate on a 5-tuple that holds an allocation is a mismatch (437), never a second allocation",
                       Users='{"u1", "u2"}', PeerIPs='{"A"}', PeerPorts='{1}', ChanNums='{16384}',
                       LifeReqs='<- MCLifeAbsent0', Txids='{"t1", "t2"}', MaxDepth='4'),
    "GEN_quota": dict(kind="gen", doc="user q1 may hold one allocation at a time (counting quota handler): retransmission and second Allocate are answered before the quota is asked",
                      Clients='{"c1", "c2"}', Users='{"q1", "u1"}', PeerIPs='{"A"}', PeerPorts='{1}', ChanNums='{16384}',
                      LifeReqs='<- MCLifeAbsent0', Txids='{"t1", "t2"}', MaxDepth='5'),
    "GEN_iso": dict(kind="gen", doc="three 5-tuples sharing users, peers, channel numbers and transaction ids",
                    Clients='{"c1", "c2", "c3"}', Users='{"u1"}', PeerIPs='{"A"}', PeerPorts='{1}', ChanNums='{16384}',
                    LifeReqs='<- MCLifeAbsent0', MaxDepth='5'),
    "GEN_v6": dict(kind="gen", doc="IPv6 listener/client/peers and REQUESTED-ADDRESS-FAMILY, vetoed IPv6 peer",
                   Clients='{"c1", "c6"}', PeerIPs='{"A", "X", "Y"}', PeerPorts='{1}', ReqFams='{0, 4, 6, 9}', Denied='<- MCDeniedV6',
                   ChanNums='{16384}', LifeReqs='<- MCLifeAbsent0', MaxDepth='4'),
    "GEN_v6strict": dict(kind="gen", doc="StrictAddressFamily: absent family means IPv4 even on an IPv6 listener",
                         Clients='{"c6"}', PeerIPs='{"A", "X"}', PeerPorts='{1}', ReqFams='{0, 6}', Strict='TRUE',
                         ChanNums='{16384}', MaxDepth='5'),
    "GEN_resv": dict(kind="gen", doc="EVEN-PORT / RESERVATION-TOKEN",
                     Clients='{"c1", "c2"}', PeerIPs='{"A"}', PeerPorts='{1}', ChanNums='{16384}', ReqFams='{0, 4}',
                     LifeReqs='<- MCLifeAbsent0', Txids='{"t1", "t2"}', Toks='{"none", "even", "bogus", "c1", "c2"}',
                     DefaultLife='40', PermTO='35', ChanTO='35', ResvTO='30', MaxDepth='5'),
    "GEN_recycle": dict(kind="gen", doc="identifier recycling: one channel number, two ports of one peer IP; bindings lapse and the number is bound again (small alphabet: long random histories)",
                        PeerIPs='{"A"}', PeerPorts='{1, 2}', ChanNums='{16384}', PermSeqs='<- MCPermSeqs1', MaxDepth='7'),
    "GEN_stream": dict(kind="gen", doc="a datagram client and a stream client with the same IP and port; the control connection closes",
                       Clients='{"c1", "s1"}', PeerIPs='{"A"}', PeerPorts='{1}', ChanNums='{16384}', LifeReqs='<- MCLifeAbsent0', MaxDepth='5'),
    "GEN_stream2": dict(kind="gen", doc="two stream clients with the same IP and port on two stream listeners; either connection closes",
                        Clients='{"s1", "sx"}', PeerIPs='{"A"}', PeerPorts='{1}', ChanNums='{16384}', LifeReqs='<- MCLifeAbsent0', MaxDepth='5'),
    "GEN_veto": dict(kind="gen", doc="the operator's verdict about (c1, A) changes at run time (a block list behind the PermissionHandler)",
                     PeerIPs='{"A", "B"}', PeerPorts='{1}', ChanNums='{16384}', PermSeqs='<- MCPermSeqs1', Vetoable='<- MCVetoable', MaxDepth='6'),
    "GEN_longlife": dict(kind="gen", doc="default allocation lifetime 2 h, above the one-hour ceiling of requested lifetimes",
                         PeerIPs='{"A"}', PeerPorts='{1}', ChanNums='{16384}', LifeReqs='<- MCLifeTime', Txids='{"t1", "t2"}',
                         DefaultLife='7200', PermTO='300', ChanTO='600', MaxDepth='4'),
    "GEN_stream3": dict(kind="gen", doc="two stream clients with the same IP and port connected to two local IPs of one wildcard listener",
                        Clients='{"s1", "sy"}', PeerIPs='{"A"}', PeerPorts='{1}', ChanNums='{16384}', LifeReqs='<- MCLifeAbsent0', MaxDepth='5'),
    "GEN_chan3": dict(kind="gen", doc="three channel numbers bound at different times: a binding that is not the newest expires while the others live on",
                      PeerIPs='{"A"}', PeerPorts='{1, 2, 3}', ChanNums='{16384, 16385, 16386}', PermSeqs='<- MCPermSeqs1', LifeReqs='<- MCLifeAbsent',
                      DefaultLife='9', PermTO='4', ChanTO='4', MaxDepth='8'),
    "GEN_mtu": dict(kind="gen", doc="payload lengths / contents through both encapsulations and both directions",
                    PeerIPs='{"A"}', PeerPorts='{1}', ChanNums='{16384}', Lens='<- MCLensMTU',
                    Pays='{"p", "stunlike", "chanlike", "zeros", "cookie"}', MaxDepth='4'),
    "GEN_mtu1200": dict(kind="gen", doc="as GEN_mtu with InboundMTU 1200",
                        PeerIPs='{"A"}', PeerPorts='{1}', ChanNums='{16384}', Lens='<- MCLensMTU1200',
                        InboundMTU='1200', MaxDepth='4'),
}

ORDER = ["Clients", "Users", "PeerIPs", "PeerPorts", "Fam", "ListenFam", "Strict", "ReqFams", "ChanNums", "LifeReqs",
         "Txids", "Pays", "Lens", "InboundMTU", "PermSeqs", "DefaultLife", "PermTO", "ChanTO", "MaxLife", "Denied", "Vetoable", "Toks", "ResvTO", "QuotaDenied",
         "MaxDepth"]

for name, c in CFGS.items():
    vals = dict(BASE)
    vals.update({k: v for k, v in c.items() if k not in ("kind", "doc")})
    lines = ["\\* %s -- generated by mkcfg.py; %s" % (name, c["doc"]), "SPECIFICATION Spec", "VIEW View", "CONSTANTS"]
    for k in ORDER:
        v = vals[k]
        lines.append("  %s %s" % (k, v) if v.startswith("<-") else "  %s = %s" % (k, v))
    lines.append("CONSTRAINT DepthBound")
    if c["kind"] == "mc":
        lines.append("INVARIANTS " + INVS)
        lines.append("PROPERTIES " + PROPS)
    else:
        lines.append("ACTION_CONSTRAINT EmitEdge")
    open(os.path.join(HERE, name + ".cfg"), "w").write("\n".join(lines) + "\n")
print("wrote", len(CFGS), "cfg files")
