SPECIFICATION Spec
VIEW View
CHECK_DEADLOCK FALSE
CONSTANTS
  Streams <- MCBigStreams
  Mode = "framer1600"
ACTION_CONSTRAINT EmitEdge
