\* GEN_chan3 -- generated by mkcfg.py; three channel numbers bound at different times: a binding that is not the newest expires while the others live on
SPECIFICATION Spec
VIEW View
CONSTANTS
  Clients = {"c1"}
  Users = {"u1"}
  PeerIPs = {"A"}
  PeerPorts = {1, 2, 3}
  Fam <- MCFam
  ListenFam <- MCListenFam
  Strict = FALSE
  ReqFams = {0}
  ChanNums = {16384, 16385, 16386}
  LifeReqs <- MCLifeAbsent
  Txids = {"t1"}
  Pays = {"p"}
  Lens <- MCLenSmall
  InboundMTU = 1600
  PermSeqs <- MCPermSeqs1
  DefaultLife = 9
  PermTO = 4
  ChanTO = 4
  MaxLife = 3600
  Denied <- MCNoDenied
  Vetoable = {}
  Toks = {"none"}
  ResvTO = 30
  QuotaDenied = {}
  MaxDepth = 8
CONSTRAINT DepthBound
ACTION_CONSTRAINT EmitEdge
