\* time unit 10 s: allocation 600 s, permission 300 s, channel 600 s, nonce 3600 s (+60 grey),
\* permission refresh 120 s, binding check 30 s, binding refresh after 300 s, delays up to 10 s, unbounded duration (absolute time is not part of the state)
SPECIFICATION Spec
CONSTANTS
  AllocLife = 60
  PermLife = 30
  ChanLife = 60
  NonceLife = 366
  PermEvery = 12
  BindCheckEvery = 3
  BindAge = 30
  MaxDelay = 1
  Horizon = 780
VIEW View
INVARIANTS C14_AllocAlive C14_ChanAlive C14_PermAlive C14_CloseReleases
CHECK_DEADLOCK FALSE
