----------------------------- MODULE ChanProof -----------------------------
(***************************************************************************)
(* TLAPS proof that the table invariants of ChanInd.tla are inductive, for  *)
(* ARBITRARY sets of clients, numbers, peer IPs and ports (Apalache checks  *)
(* the same for the fixed sets of ConstInit; TLC for bounded depths).       *)
(***************************************************************************)
EXTENDS Integers, TLAPS

CONSTANTS Clients, Nums, PeerIPs, Ports
VARIABLES live, chan, perm

None == <<"none", 0>>
Peers == PeerIPs \X Ports
Valid(n) == n >= 16384 /\ n <= 32767
vars == <<live, chan, perm>>

Init ==
  /\ live = [c \in Clients |-> FALSE]
  /\ chan = [x \in Clients \X Nums |-> None]
  /\ perm = [x \in Clients \X PeerIPs |-> FALSE]

Allocate(c) == ~live[c] /\ live' = [live EXCEPT ![c] = TRUE] /\ UNCHANGED <<chan, perm>>
Delete(c) ==
  /\ live[c]
  /\ live' = [live EXCEPT ![c] = FALSE]
  /\ chan' = [x \in Clients \X Nums |-> IF x[1] = c THEN None ELSE chan[x]]
  /\ perm' = [x \in Clients \X PeerIPs |-> IF x[1] = c THEN FALSE ELSE perm[x]]
CreatePermission(c, i) == live[c] /\ perm' = [perm EXCEPT ![<<c, i>>] = TRUE] /\ UNCHANGED <<live, chan>>
ChannelBind(c, n, p) ==
  /\ live[c] /\ Valid(n)
  /\ chan[<<c, n>>] = None \/ chan[<<c, n>>] = p
  /\ \A m \in Nums : m # n => chan[<<c, m>>] # p
  /\ chan' = [chan EXCEPT ![<<c, n>>] = p]
  /\ perm' = [perm EXCEPT ![<<c, p[1]>>] = TRUE]
  /\ UNCHANGED live
ExpireChan(c, n) == chan[<<c, n>>] # None /\ chan' = [chan EXCEPT ![<<c, n>>] = None] /\ UNCHANGED <<live, perm>>
ExpirePerm(c, i) == perm[<<c, i>>] /\ perm' = [perm EXCEPT ![<<c, i>>] = FALSE] /\ UNCHANGED <<live, chan>>

Next ==
  \/ \E c \in Clients : Allocate(c) \/ Delete(c)
  \/ \E c \in Clients, i \in PeerIPs : CreatePermission(c, i) \/ ExpirePerm(c, i)
  \/ \E c \in Clients, n \in Nums, p \in Peers : ChannelBind(c, n, p)
  \/ \E c \in Clients, n \in Nums : ExpireChan(c, n)
Spec == Init /\ [][Next]_vars

TypeOK ==
  /\ live \in [Clients -> BOOLEAN]
  /\ chan \in [Clients \X Nums -> Peers \cup {None}]
  /\ perm \in [Clients \X PeerIPs -> BOOLEAN]
Bijection == \A c \in Clients : \A n1, n2 \in Nums :
               (chan[<<c, n1>>] # None /\ chan[<<c, n1>>] = chan[<<c, n2>>]) => n1 = n2
Range == \A c \in Clients, n \in Nums : chan[<<c, n>>] # None => Valid(n)
NoOrphans == \A c \in Clients : ~live[c] =>
               /\ \A n \in Nums : chan[<<c, n>>] = None
               /\ \A i \in PeerIPs : ~perm[<<c, i>>]
IndInv == TypeOK /\ Bijection /\ Range /\ NoOrphans

ASSUME NoneNotPeer == None \notin Peers

THEOREM InitInv == Init => IndInv
  BY DEF Init, IndInv, TypeOK, Bijection, Range, NoOrphans, None

THEOREM StepInv == IndInv /\ [Next]_vars => IndInv'
<1> SUFFICES ASSUME IndInv, [Next]_vars PROVE IndInv'
  OBVIOUS
<1>1. CASE UNCHANGED vars
  BY <1>1 DEF IndInv, TypeOK, Bijection, Range, NoOrphans, vars
<1>2. ASSUME NEW c \in Clients, Allocate(c) PROVE IndInv'
  BY <1>2 DEF Allocate, IndInv, TypeOK, Bijection, Range, NoOrphans
<1>3. ASSUME NEW c \in Clients, Delete(c) PROVE IndInv'
  BY <1>3 DEF Delete, IndInv, TypeOK, Bijection, Range, NoOrphans, None
<1>4. ASSUME NEW c \in Clients, NEW i \in PeerIPs, CreatePermission(c, i) PROVE IndInv'
  BY <1>4 DEF CreatePermission, IndInv, TypeOK, Bijection, Range, NoOrphans
<1>5. ASSUME NEW c \in Clients, NEW i \in PeerIPs, ExpirePerm(c, i) PROVE IndInv'
  BY <1>5 DEF ExpirePerm, IndInv, TypeOK, Bijection, Range, NoOrphans
<1>6. ASSUME NEW c \in Clients, NEW n \in Nums, NEW p \in Peers, ChannelBind(c, n, p) PROVE IndInv'
  BY <1>6, NoneNotPeer DEF ChannelBind, IndInv, TypeOK, Bijection, Range, NoOrphans, Peers
<1>7. ASSUME NEW c \in Clients, NEW n \in Nums, ExpireChan(c, n) PROVE IndInv'
  BY <1>7 DEF ExpireChan, IndInv, TypeOK, Bijection, Range, NoOrphans
<1> QED
  BY <1>1, <1>2, <1>3, <1>4, <1>5, <1>6, <1>7 DEF Next

THEOREM Safety == Spec => []IndInv
  BY InitInv, StepInv, PTL DEF Spec
=============================================================================
