\* GEN_recycle -- generated by mkcfg.py; identifier recycling: one channel number, two ports of one peer IP; bindings lapse and the number is bound again (small alphabet: long random histories)
SPECIFICATION Spec
VIEW View
CONSTANTS
  Clients = {"c1"}
  Users = {"u1"}
  PeerIPs = {"A"}
  PeerPorts = {1, 2}
  Fam <- MCFam
  ListenFam <- MCListenFam
  Strict = FALSE
  ReqFams = {0}
  ChanNums = {16384}
  LifeReqs <- MCLifeAbsent
  Txids = {"t1"}
  Pays = {"p"}
  Lens <- MCLenSmall
  InboundMTU = 1600
  PermSeqs <- MCPermSeqs1
  DefaultLife = 5
  PermTO = 2
  ChanTO = 3
  MaxLife = 3600
  Denied <- MCNoDenied
  Vetoable = {}
  Toks = {"none"}
  ResvTO = 30
  QuotaDenied = {}
  MaxDepth = 7
CONSTRAINT DepthBound
ACTION_CONSTRAINT EmitEdge
