\* a retransmission whose socket write takes time and may fail, Close called meanwhile
SPECIFICATION Spec
VIEW View
CHECK_DEADLOCK FALSE
CONSTANTS
  Txns = {"t1", "t2"}
  RTO = 200
  MaxIvl = 1600
  MaxSend = 7
  FineTime = FALSE
  SlowWrites = FALSE
  SlowRtx = "close"
  IgnoreToo = FALSE
  FailAts = {0, 2}
  MaxDepth = 9
CONSTRAINT DepthBound
INVARIANTS C12_Schedule C12_NothingLeft
PROPERTIES C12_ExactlyOnce C12_OwnResponse
