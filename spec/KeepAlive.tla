------------------------------ MODULE KeepAlive ------------------------------
(***************************************************************************)
(* A live client keeps its relay alive: the client's refresh machinery      *)
(* (internal/client/allocation.go, udp_conn.go, periodic_timer.go) running  *)
(* against the server's expiry timers (TurnServer.tla's count-downs) and    *)
(* the one-hour nonce, over a network that may delay any transaction by up  *)
(* to MaxDelay (up to six of its seven transmissions lost).                 *)
(*                                                                         *)
(* Time unit: Unit seconds (the exhaustive configuration scales all         *)
(* constants by 1/10: allocation 60, permission 30, channel 60, nonce 360,  *)
(* refresh every 30 / 12 / check 3 + age 30, delay <= 1).                   *)
(* Server side: aRem, pRem, cRem (remaining life of the allocation, of the  *)
(* permission and of the channel binding), nAge (age of the nonce the       *)
(* client holds).  Client side: the three periodic timers and the age of    *)
(* the binding.  Each timer handler is a transaction that takes 0..MaxDelay *)
(* and, when the nonce is stale, one more round trip (438, new nonce,       *)
(* retry) -- the period of a timer drifts by its handler's duration, as in  *)
(* PeriodicTimer.                                                           *)
(***************************************************************************)
EXTENDS Integers, TLC

CONSTANTS AllocLife, PermLife, ChanLife, NonceLife,      \* server
          PermEvery, BindCheckEvery, BindAge,            \* client intervals
          MaxDelay, Horizon

VARIABLES now, open,
          aRem, pRem, cRem, nAge,         \* server-side remaining lives, age of the client's nonce
          tAlloc, tPerm, tBind, bAge,     \* client timers (time to next firing) and age of the binding
          gone                            \* the allocation is gone at the server
vars == <<now, open, aRem, pRem, cRem, nAge, tAlloc, tPerm, tBind, bAge, gone>>

Init == /\ now = 0 /\ open = TRUE /\ gone = FALSE
        /\ aRem = AllocLife /\ pRem = PermLife /\ cRem = ChanLife /\ nAge = 0
        /\ tAlloc = AllocLife \div 2 /\ tPerm = PermEvery /\ tBind = BindCheckEvery /\ bAge = 0

Min(a, b) == IF a < b THEN a ELSE b
\* a transaction started now completes after d (delay by loss) plus one more delay when the nonce is stale
Dur(d, d2) == IF nAge > NonceLife THEN d + d2 ELSE d

(* time passes by 1 unit; nothing may expire while the socket is open -- that is what is checked *)
Tick ==
  /\ tAlloc > 0 /\ tPerm > 0 /\ tBind > 0        \* due timers fire first
  /\ now' = 0 /\ nAge' = nAge + 1 /\ bAge' = bAge + 1
  /\ aRem' = (IF gone THEN 0 ELSE aRem - 1) /\ pRem' = pRem - 1 /\ cRem' = cRem - 1
  /\ tAlloc' = tAlloc - 1 /\ tPerm' = tPerm - 1 /\ tBind' = tBind - 1
  /\ UNCHANGED <<open, gone>>

\* effect of a transaction that takes dur: time advances by dur, then the server applies it
After(dur) ==
  /\ now' = 0 /\ bAge' = bAge + dur
  /\ nAge' = IF nAge > NonceLife THEN 0 ELSE nAge + dur      \* a 438 hands out a fresh nonce

(* refresh allocation timer: Refresh(lifetime) *)
RefreshAlloc(d, d2) ==
  /\ open /\ tAlloc = 0
  /\ After(Dur(d, d2))
  /\ aRem' = AllocLife /\ pRem' = pRem - Dur(d, d2) /\ cRem' = cRem - Dur(d, d2)
  /\ tAlloc' = AllocLife \div 2
  /\ tPerm' = IF tPerm > Dur(d, d2) THEN tPerm - Dur(d, d2) ELSE 0
  /\ tBind' = IF tBind > Dur(d, d2) THEN tBind - Dur(d, d2) ELSE 0
  /\ UNCHANGED <<open, gone>>

(* refresh permissions timer: CreatePermission for every permitted peer *)
RefreshPerm(d, d2) ==
  /\ open /\ tPerm = 0
  /\ After(Dur(d, d2))
  /\ pRem' = PermLife /\ aRem' = aRem - Dur(d, d2) /\ cRem' = cRem - Dur(d, d2)
  /\ tPerm' = PermEvery
  /\ tAlloc' = IF tAlloc > Dur(d, d2) THEN tAlloc - Dur(d, d2) ELSE 0
  /\ tBind' = IF tBind > Dur(d, d2) THEN tBind - Dur(d, d2) ELSE 0
  /\ UNCHANGED <<open, gone>>

(* binding check timer: ChannelBind again when the binding is older than BindAge *)
CheckBind(d, d2) ==
  /\ open /\ tBind = 0
  /\ IF bAge > BindAge
       THEN /\ now' = 0 /\ bAge' = 0
            /\ nAge' = IF nAge > NonceLife THEN 0 ELSE nAge + Dur(d, d2)
            /\ cRem' = ChanLife /\ pRem' = PermLife /\ aRem' = aRem - Dur(d, d2)
            /\ tAlloc' = IF tAlloc > Dur(d, d2) THEN tAlloc - Dur(d, d2) ELSE 0
            /\ tPerm' = IF tPerm > Dur(d, d2) THEN tPerm - Dur(d, d2) ELSE 0
       ELSE UNCHANGED <<now, bAge, nAge, cRem, pRem, aRem, tAlloc, tPerm>>
  /\ tBind' = BindCheckEvery
  /\ UNCHANGED <<open, gone>>

(* Close: one Refresh(0), fire and forget.  With a fresh nonce the allocation is gone when a       *)
(* transmission arrives; with a stale nonce the server answers 438 and nobody is listening          *)
(* (StaleClose, the deviation recorded as finding D18).                                             *)
Close ==
  /\ open
  /\ open' = FALSE
  /\ gone' = (nAge <= NonceLife)
  /\ UNCHANGED <<now, aRem, pRem, cRem, nAge, tAlloc, tPerm, tBind, bAge>>

(* the same client allocates again on the same 5-tuple after a Close that released the allocation: a new
   allocation with nothing of the old one left behind (in particular none of its timers) *)
Reopen ==
  /\ ~open /\ gone
  /\ now' = 0 /\ open' = TRUE /\ gone' = FALSE
  /\ aRem' = AllocLife /\ pRem' = PermLife /\ cRem' = ChanLife /\ nAge' = 0      \* Allocate starts with a 401: fresh nonce
  /\ tAlloc' = AllocLife \div 2 /\ tPerm' = PermEvery /\ tBind' = BindCheckEvery /\ bAge' = 0

Delays == 0..MaxDelay
Next == Tick \/ Close \/ Reopen
        \/ \E d, d2 \in Delays : RefreshAlloc(d, d2) \/ RefreshPerm(d, d2) \/ CheckBind(d, d2)
Spec == Init /\ [][Next]_vars
Bounded == now <= Horizon
\* the protocol state does not depend on the absolute time: hiding `now` makes the reachable state
\* space finite, so the check covers ANY duration, not only the horizon
View == <<open, aRem, pRem, cRem, nAge, tAlloc, tPerm, tBind, bAge, gone>>

\* C14: while the socket is open nothing the data path needs ever lapses at the server
C14_AllocAlive == open => aRem > 0
C14_ChanAlive  == open => cRem > 0          \* both relay directions consult the channel first
\* (the permission alone may lapse for a moment without stopping channel traffic; reported, not required)
C14_PermAlive  == open => pRem > 0
\* C14: closing releases the allocation -- when the nonce the client holds is still valid
C14_CloseReleases == (~open /\ ~gone) => nAge > NonceLife
=============================================================================
