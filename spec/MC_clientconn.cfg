SPECIFICATION MCSpec
CONSTANTS
  QueueCap = 2
  MaxDepth = 6
CONSTRAINT DepthBound
INVARIANTS C13_Injective C13_Range C13_Confirmed C13_QueueBound
CHECK_DEADLOCK FALSE
