SPECIFICATION Spec
VIEW View
CONSTANTS
  Nums <- MCNums
  PayLens <- MCPayLens
  Declared <- MCDeclared
  Actual <- MCActual
  Attrs <- MCAttrs
  RawSizes = {0, 1, 2, 3, 4, 5, 6, 7, 8, 9, 10, 11, 12, 13, 14, 15, 16, 17, 18, 19, 20, 21, 22, 23, 24, 25, 26, 27, 28, 29, 30, 31, 32, 33, 34, 35, 36, 37, 38, 39, 40, 41, 42, 43, 44, 45, 46, 47, 48, 49, 50, 51, 52, 53, 54, 55, 56, 57, 58, 59, 60, 61, 62, 63, 64}
  Fills <- MCFills
ACTION_CONSTRAINT EmitEdge
