SPECIFICATION Spec
VIEW View
CHECK_DEADLOCK FALSE
CONSTANTS
  Txns = {"t1", "t2"}
  RTO = 500
  MaxIvl = 1600
  MaxSend = 7
  FineTime = FALSE
  SlowWrites = TRUE
  SlowRtx = "no"
  IgnoreToo = FALSE
  FailAts = {0, 1, 2, 7}
  MaxDepth = 99
ACTION_CONSTRAINT EmitEdge
