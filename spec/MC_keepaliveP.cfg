\* an operator with longer permissions (1500 s) and a client told to refresh them every 720 s; the binding refresh keeps its own interval
\* time unit 10 s: allocation 600 s, permission 300 s, channel 600 s, nonce 3600 s (+60 grey),
\* permission refresh 120 s, binding check 30 s, binding refresh after 300 s, delays up to 10 s, unbounded duration (absolute time is not part of the state)
SPECIFICATION Spec
CONSTANTS
  AllocLife = 60
  PermLife = 150
  ChanLife = 60
  NonceLife = 366
  PermEvery = 72
  BindCheckEvery = 3
  BindAge = 30
  MaxDelay = 0
  Horizon = 780
VIEW View
INVARIANTS C14_AllocAlive C14_ChanAlive C14_PermAlive C14_CloseReleases
CHECK_DEADLOCK FALSE
