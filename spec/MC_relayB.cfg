\* MC_relayB -- generated by mkcfg.py; channel timeout shorter than the permission timeout
SPECIFICATION Spec
VIEW View
CONSTANTS
  Clients = {"c1"}
  Users = {"u1"}
  PeerIPs = {"A", "B"}
  PeerPorts = {1, 2}
  Fam <- MCFam
  ListenFam <- MCListenFam
  Strict = FALSE
  ReqFams = {0}
  ChanNums = {16384, 16385}
  LifeReqs <- MCLifeAbsent0
  Txids = {"t1"}
  Pays = {"p"}
  Lens <- MCLenSmall
  InboundMTU = 1600
  PermSeqs <- MCPermSeqsAB
  DefaultLife = 5
  PermTO = 3
  ChanTO = 2
  MaxLife = 3600
  Denied <- MCNoDenied
  Vetoable = {}
  Toks = {"none"}
  ResvTO = 30
  QuotaDenied = {}
  MaxDepth = 8
CONSTRAINT DepthBound
INVARIANTS TypeOK C01_NeverInstalled NoOrphans C08_Bijection C08_Range C19_ReservedOnce
PROPERTIES C01_OnlyAuthorised C01_AskedEveryTime C02_OnlyPermitted C04_Isolation C05_WithinLimitsDelivered C06_Exact C07_FullRestart C08_Conflict400 C19_SecondAllocate C19_TokenNeedsReservation
