\* GEN_relayD -- generated by mkcfg.py; two clients, operator veto for (c1,B), IPv6 peer, invalid channel number
SPECIFICATION Spec
VIEW View
CONSTANTS
  Clients = {"c1", "c2"}
  Users = {"u1"}
  PeerIPs = {"A", "B", "X"}
  PeerPorts = {1}
  Fam <- MCFam
  ListenFam <- MCListenFam
  Strict = FALSE
  ReqFams = {0}
  ChanNums = {16384, 1, 32768, 49152, 65535}
  LifeReqs <- MCLifeAbsent
  Txids = {"t1"}
  Pays = {"p"}
  Lens <- MCLenSmall
  InboundMTU = 1600
  PermSeqs <- MCPermSeqs2
  DefaultLife = 5
  PermTO = 2
  ChanTO = 3
  MaxLife = 3600
  Denied <- MCDenied
  Vetoable = {}
  Toks = {"none"}
  ResvTO = 30
  QuotaDenied = {}
  MaxDepth = 5
CONSTRAINT DepthBound
ACTION_CONSTRAINT EmitEdge
