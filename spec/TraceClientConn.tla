-------------------------- MODULE TraceClientConn --------------------------
(***************************************************************************)
(* Engine B: validates executions recorded from the real turn.Client        *)
(* (harness/clientconn_trace_test.go) against ClientConn.tla.  The trace is *)
(* an ndjson file, one observable event per line, in the order the events   *)
(* happened; several executions are concatenated, separated by "Reset".     *)
(* Each line must be a step the specification allows; the first line whose  *)
(* guard is false stops the replay and the post-condition reports it.       *)
(***************************************************************************)
EXTENDS ClientConn, Json

CONSTANT TraceFile
Tr == ndJsonDeserialize(TraceFile)

VARIABLE l
tvars == <<cvars, l>>

Line == Tr[l]
IsEvent(e) == l <= Len(Tr) /\ Line.e = e /\ l' = l + 1

TInit == CInit /\ l = 1

TReset      == IsEvent("Reset") /\ permOK' = {} /\ assigned' = <<>> /\ chanOK' = {} /\ cpReq' = <<>> /\ cbReq' = <<>>
                                /\ writes' = <<>> /\ queue' = <<>> /\ closed' = FALSE
TWriteCall  == IsEvent("WriteCall") /\ WriteCall(Line.pay, Line.p, Line.pay)
TWriteRet   == IsEvent("WriteRet")  /\ WriteRet(Line.pay, Line.ok)
TCPReq      == IsEvent("CPReq")     /\ CPReq(Line.tx, {x : x \in {Line.ips[i] : i \in DOMAIN Line.ips}})
TCPResp     == IsEvent("CPResp")    /\ CPResp(Line.tx, Line.r)
TCBReq      == IsEvent("CBReq")     /\ CBReq(Line.tx, Line.n, Line.p)
TCBResp     == IsEvent("CBResp")    /\ CBResp(Line.tx, Line.r)
TSendInd    == IsEvent("SendInd")   /\ SendInd(Line.pay, Line.p, Line.pay)
TChanData   == IsEvent("ChanData")  /\ ChanData(Line.pay, Line.n, Line.pay)
TInjectInd  == IsEvent("InjectInd") /\ InjectInd(Line.p, Line.pay)
TInjectChan == IsEvent("InjectChan") /\ InjectChan(Line.n, Line.pay)
TRead       == IsEvent("Read")      /\ Read(Line.pay, Line.from)
TReadErr    == IsEvent("ReadErr")   /\ ReadErr
TClose      == IsEvent("Close")     /\ Close
\* events that carry no obligation for C13 (allocation refreshes, time stamps)
TNote       == IsEvent("Note")      /\ UNCHANGED cvars
\* liveness probe of the client's inbound path after a burst nobody consumed: it must have succeeded
TProbe      == IsEvent("Probe")     /\ Line.ok /\ UNCHANGED cvars
\* a reader blocked with nothing queued is woken by its deadline (exactly then) and by Close
TWoken      == IsEvent("Woken")     /\ Line.ok /\ queue = <<>> /\ UNCHANGED cvars
\* the execution has settled (all timers and transactions done): every successful write is on the wire
TEnd        == IsEvent("End")       /\ Settled /\ UNCHANGED cvars

TNext == TReset \/ TWriteCall \/ TWriteRet \/ TCPReq \/ TCPResp \/ TCBReq \/ TCBResp \/ TSendInd \/ TChanData
         \/ TInjectInd \/ TInjectChan \/ TRead \/ TReadErr \/ TClose \/ TNote \/ TEnd \/ TProbe \/ TWoken
TSpec == TInit /\ [][TNext]_tvars

\* how far the replay got (high-water mark kept in a TLC register; run with -workers 1)
Progress == TLCSet(1, IF l > TLCGet(1) THEN l ELSE TLCGet(1))
ASSUME TLCSet(1, 0)
Accepted ==
  IF TLCGet(1) = Len(Tr) + 1 THEN PrintT("TRACE ACCEPTED " \o ToString(Len(Tr)))
  ELSE /\ PrintT("TRACE REJECTED at line " \o ToString(TLCGet(1)) \o " of " \o ToString(Len(Tr)))
       /\ PrintT(Tr[TLCGet(1)])
       /\ FALSE
=============================================================================
