\* MC_longlife -- generated by mkcfg.py; an operator whose default allocation lifetime (2 h) is above the one-hour ceiling of requested lifetimes
SPECIFICATION Spec
VIEW View
CONSTANTS
  Clients = {"c1"}
  Users = {"u1"}
  PeerIPs = {"A"}
  PeerPorts = {1}
  Fam <- MCFam
  ListenFam <- MCListenFam
  Strict = FALSE
  ReqFams = {0}
  ChanNums = {16384}
  LifeReqs <- MCLifeTime
  Txids = {"t1", "t2"}
  Pays = {"p"}
  Lens <- MCLenSmall
  InboundMTU = 1600
  PermSeqs <- MCPermSeqs1
  DefaultLife = 7200
  PermTO = 300
  ChanTO = 600
  MaxLife = 3600
  Denied <- MCNoDenied
  Vetoable = {}
  Toks = {"none"}
  ResvTO = 30
  QuotaDenied = {}
  MaxDepth = 6
CONSTRAINT DepthBound
INVARIANTS TypeOK C01_NeverInstalled NoOrphans C08_Bijection C08_Range C19_ReservedOnce
PROPERTIES C01_OnlyAuthorised C01_AskedEveryTime C02_OnlyPermitted C04_Isolation C05_WithinLimitsDelivered C06_Exact C07_FullRestart C08_Conflict400 C19_SecondAllocate C19_TokenNeedsReservation
