SPECIFICATION TSpec
CONSTANTS
  QueueCap = 1024
  TraceFile = "trace.ndjson"
CONSTRAINT Progress
INVARIANTS C13_Injective C13_Range C13_Confirmed C13_QueueBound
POSTCONDITION Accepted
CHECK_DEADLOCK FALSE
