------------------------------ MODULE TurnTCP ------------------------------
(***************************************************************************)
(* RFC 6062 relay (TCP allocations) of the pion/turn server, request-atomic *)
(* (handleConnectRequest / handleConnectionBindRequest in                   *)
(* internal/server/turn.go, Allocation.connHandler and the tcpConnections   *)
(* table in internal/allocation).                                           *)
(*                                                                         *)
(* Control connections are streams to the server's listener; a client c is  *)
(* one control connection (5-tuple).  conn[id] is a peer data connection:   *)
(*   owner  allocation it belongs to        peer   the peer's address       *)
(*   dir    "out" (Connect) / "in" (peer dialled the relayed address)       *)
(*   bound  a ConnectionBind joined a client data connection to it          *)
(*   rem    seconds left to bind (30 s), 0 once bound                       *)
(*   held   chunks the peer sent before the bind (delivered after it)       *)
(* Ids are aliased by order of creation (the code draws them at random).    *)
(***************************************************************************)
EXTENDS Integers, Sequences, FiniteSets, TLC, Json

CONSTANTS Clients, Users, PeerIPs, PeerPorts,
          Denied,       \* {<<client, ip>>} vetoed by the permission handler
          Listening,    \* peers that accept connections (others refuse: 447)
          MaxConns,     \* bound on connection ids ever created (model bound)
          DefaultLife, PermTO, BindTO,
          SlowDial,     \* BOOLEAN: also explore a Connect whose outgoing dial takes time
          MaxDepth

VARIABLES alloc, perm, conn, nextId, out, last
vars  == <<alloc, perm, conn, nextId, out, last>>
state == <<alloc, perm, conn, nextId>>

Peers   == PeerIPs \X PeerPorts
NoAlloc == [live |-> FALSE]
NoConn  == [open |-> FALSE]
Ids     == 1..MaxConns

Init ==
  /\ alloc = [c \in Clients |-> NoAlloc]
  /\ perm  = [c \in Clients |-> [i \in PeerIPs |-> 0]]
  /\ conn  = [id \in Ids |-> NoConn]
  /\ nextId = 1
  /\ out = {} /\ last = [a |-> "Init"]

Live(c)    == alloc[c].live
Owns(c, u) == Live(c) /\ alloc[c].user = u
\* an ORPHAN is a peer connection whose outgoing dial ended after its allocation had expired (named deviation
\* OrphanAfterSlowDial: the server registers it on the allocation object that is no longer in the table and answers the
\* Connect with success; nobody can bind it, and the bind deadline closes it)
Orphan(id) == "orphan" \in DOMAIN conn[id]
ConnsOf(c) == {id \in Ids : conn[id].open /\ ~Orphan(id) /\ conn[id].owner = c}
Resp(c, m, cls, code) == [k |-> "resp", to |-> c, m |-> m, cls |-> cls, code |-> code]
\* alloc[c].dial (present only meanwhile): the peer a Connect of c is dialling.  The server reads a control connection
\* one request at a time, so c itself is not served until the dial ends; everybody else is.
Dialing(c) == "dial" \in DOMAIN alloc[c]
AnyDial    == \E c \in Clients : Dialing(c)

Allocate(c, u) ==
  /\ ~Dialing(c)
  /\ last' = [a |-> "Allocate", c |-> c, u |-> u]
  /\ IF Live(c)
       THEN UNCHANGED state /\ out' = {Resp(c, "Allocate", "err", 437)}
       ELSE /\ alloc' = [alloc EXCEPT ![c] = [live |-> TRUE, user |-> u, rem |-> DefaultLife]]
            /\ UNCHANGED <<perm, conn, nextId>>
            /\ out' = {Resp(c, "Allocate", "ok", 0)}

CreatePermission(c, u, i) ==
  /\ ~Dialing(c)
  /\ last' = [a |-> "CreatePermission", c |-> c, u |-> u, ips |-> <<i>>]
  /\ IF ~Owns(c, u) THEN UNCHANGED state /\ out' = {}
     ELSE IF <<c, i>> \in Denied THEN UNCHANGED state /\ out' = {Resp(c, "CreatePermission", "err", 0)}
     ELSE /\ perm' = [perm EXCEPT ![c][i] = PermTO] /\ UNCHANGED <<alloc, conn, nextId>>
          /\ out' = {Resp(c, "CreatePermission", "ok", 0)}

(* handleConnectRequest + Manager.CreateTCPConnection *)
Dup(c, p) == \E id \in ConnsOf(c) : conn[id].peer = p
Connect(c, u, p) ==
  /\ ~Dialing(c)
  /\ nextId <= (IF AnyDial THEN MaxConns - 1 ELSE MaxConns)
  /\ last' = [a |-> "Connect", c |-> c, u |-> u, p |-> p]
  /\ IF ~Owns(c, u) THEN UNCHANGED state /\ out' = {}
     ELSE IF <<c, p[1]>> \in Denied THEN UNCHANGED state /\ out' = {Resp(c, "Connect", "err", 403)}
     ELSE IF Dup(c, p) THEN UNCHANGED state /\ out' = {Resp(c, "Connect", "err", 446)}
     ELSE IF p \notin Listening THEN UNCHANGED state /\ out' = {Resp(c, "Connect", "err", 447)}
     ELSE /\ conn' = [conn EXCEPT ![nextId] = [open |-> TRUE, owner |-> c, peer |-> p, dir |-> "out",
                                              bound |-> FALSE, rem |-> BindTO, held |-> <<>>]]
          /\ nextId' = nextId + 1
          /\ UNCHANGED <<alloc, perm>>
          /\ out' = {[k |-> "resp", to |-> c, m |-> "Connect", cls |-> "ok", code |-> 0, id |-> nextId],
                     [k |-> "peeraccept", peer |-> p, from |-> c]}

(* a Connect whose dial toward the peer takes time (Manager.CreateTCPConnection is inside AllocateConn): nothing is    *)
(* registered and nothing is answered yet; no lock is held meanwhile -- other data connections are bound, peers   *)
(* connect, timers fire.  DialDone: the dial succeeds, the connection is registered and the Connect is answered. *)
ConnectSlow(c, u, p) ==
  /\ SlowDial /\ ~AnyDial /\ nextId <= MaxConns
  /\ Owns(c, u) /\ <<c, p[1]>> \notin Denied /\ ~Dup(c, p) /\ p \in Listening
  /\ last' = [a |-> "ConnectSlow", c |-> c, u |-> u, p |-> p]
  /\ alloc' = [alloc EXCEPT ![c] = [live |-> TRUE, user |-> alloc[c].user, rem |-> alloc[c].rem, dial |-> p]]
  /\ UNCHANGED <<perm, conn, nextId>>
  /\ out' = {}
DialDone(c) ==
  /\ Dialing(c) /\ nextId <= MaxConns
  /\ LET p == alloc[c].dial IN
     /\ last' = [a |-> "DialDone", c |-> c, p |-> p]
     /\ alloc' = [alloc EXCEPT ![c] = IF Live(c) THEN [live |-> TRUE, user |-> alloc[c].user, rem |-> alloc[c].rem] ELSE NoAlloc]
     /\ conn' = [conn EXCEPT ![nextId] =
                   IF Live(c) THEN [open |-> TRUE, owner |-> c, peer |-> p, dir |-> "out", bound |-> FALSE, rem |-> BindTO, held |-> <<>>]
                   ELSE [open |-> TRUE, owner |-> c, peer |-> p, dir |-> "out", bound |-> FALSE, rem |-> BindTO, held |-> <<>>, orphan |-> TRUE]]
     /\ nextId' = nextId + 1
     /\ UNCHANGED perm
     /\ out' = {[k |-> "resp", to |-> c, m |-> "Connect", cls |-> "ok", code |-> 0, id |-> nextId],
                [k |-> "peeraccept", peer |-> p, from |-> c]}

(* Allocation.connHandler: a peer dials the relayed address of c *)
PeerConnect(c, p) ==
  /\ ~(Dialing(c) /\ alloc[c].dial = p)
  /\ nextId <= (IF AnyDial THEN MaxConns - 1 ELSE MaxConns)
  /\ last' = [a |-> "PeerConnect", c |-> c, p |-> p]
  /\ IF ~Live(c) THEN UNCHANGED state /\ out' = {[k |-> "peerrefused", peer |-> p]}
     ELSE IF perm[c][p[1]] = 0 \/ Dup(c, p)
       THEN UNCHANGED state /\ out' = {[k |-> "peerclosed", peer |-> p]}     \* accepted, closed at once, nobody told
       ELSE /\ conn' = [conn EXCEPT ![nextId] = [open |-> TRUE, owner |-> c, peer |-> p, dir |-> "in",
                                                bound |-> FALSE, rem |-> BindTO, held |-> <<>>]]
            /\ nextId' = nextId + 1
            /\ UNCHANGED <<alloc, perm>>
            /\ out' = {[k |-> "attempt", to |-> c, peer |-> p, id |-> nextId]}

(* handleConnectionBindRequest on a fresh data connection authenticated as u.  id 0 = an id  *)
(* that was never handed out.                                                               *)
ConnectionBind(u, id) ==
  /\ last' = [a |-> "ConnectionBind", u |-> u, id |-> id]
  /\ IF id = 0 \/ ~conn[id].open \/ Orphan(id) \/ alloc[conn[id].owner].user # u \/ conn[id].bound
       THEN UNCHANGED state /\ out' = {[k |-> "bindresp", cls |-> "err", code |-> 400]}
       ELSE /\ conn' = [conn EXCEPT ![id].bound = TRUE, ![id].rem = 0, ![id].held = <<>>]
            /\ UNCHANGED <<alloc, perm, nextId>>
            /\ out' = {[k |-> "bindresp", cls |-> "ok", code |-> 0]}
                      \cup {[k |-> "todata", id |-> id, pay |-> conn[id].held[j], seq |-> j] : j \in 1..Len(conn[id].held)}

(* bytes on a bound pair are copied both ways; before the bind the peer's bytes wait *)
DataC2P(id, pay) ==
  /\ conn[id].open /\ conn[id].bound
  /\ last' = [a |-> "DataC2P", id |-> id, pay |-> pay]
  /\ UNCHANGED state
  /\ out' = {[k |-> "topeerconn", id |-> id, pay |-> pay]}
DataP2C(id, pay) ==
  /\ conn[id].open
  /\ last' = [a |-> "DataP2C", id |-> id, pay |-> pay]
  /\ IF conn[id].bound
       THEN UNCHANGED state /\ out' = {[k |-> "todata", id |-> id, pay |-> pay, seq |-> 1]}
       ELSE /\ Len(conn[id].held) < 2
            /\ conn' = [conn EXCEPT ![id].held = Append(@, pay)] /\ UNCHANGED <<alloc, perm, nextId>>
            /\ out' = {}

(* both directions of a bound pair carry a large volume at the same time while neither receiver reads:
   the relay's two copy loops stall mid-write (flow control); each stream still arrives whole and in order *)
Duplex(id) ==
  /\ conn[id].open /\ conn[id].bound
  /\ last' = [a |-> "Duplex", id |-> id]
  /\ UNCHANGED state
  /\ out' = {[k |-> "duplex", id |-> id]}

(* either side of a bound pair closes: both connections end, the id is gone *)
CloseData(id, side) ==
  /\ conn[id].open /\ conn[id].bound
  /\ last' = [a |-> "CloseData", id |-> id, side |-> side]
  /\ conn' = [conn EXCEPT ![id] = NoConn] /\ UNCHANGED <<alloc, perm, nextId>>
  /\ out' = {[k |-> "closed", id |-> id, what |-> IF side = "peer" THEN "data" ELSE "peerconn"]}

\* what must be observed when peer connections go away with their allocation: the peer side is
\* closed, and for a bound pair the client's data connection as well
Gone(S) == {[k |-> "closed", id |-> id, what |-> "peerconn"] : id \in S}
           \cup {[k |-> "closed", id |-> id, what |-> "data"] : id \in {x \in S : conn[x].bound}}

(* the control connection closes: the allocation and everything it owns go *)
ControlClose(c) ==
  /\ Live(c) /\ ~Dialing(c)
  /\ last' = [a |-> "ControlClose", c |-> c]
  /\ alloc' = [alloc EXCEPT ![c] = NoAlloc]
  /\ perm'  = [perm EXCEPT ![c] = [i \in PeerIPs |-> 0]]
  /\ conn'  = [id \in Ids |-> IF id \in ConnsOf(c) THEN NoConn ELSE conn[id]]
  /\ UNCHANGED nextId
  /\ out' = Gone(ConnsOf(c))

(* Server.Close: every listener and manager is closed, nothing remains; what a control connection *)
(* that was accepted earlier tries afterwards has no effect                                       *)
Down == \E c \in Clients : "down" \in DOMAIN alloc[c]
ServerClose ==
  /\ ~Down /\ ~AnyDial /\ \A id \in Ids : conn[id].open => ~Orphan(id)
  /\ last' = [a |-> "ServerClose"]
  /\ alloc' = [c \in Clients |-> [live |-> FALSE, down |-> TRUE]]
  /\ perm'  = [c \in Clients |-> [i \in PeerIPs |-> 0]]
  /\ conn'  = [id \in Ids |-> NoConn]
  /\ UNCHANGED nextId
  /\ out' = Gone({x \in Ids : conn[x].open})
ProbeAfterClose(c, u) ==
  /\ Down
  /\ last' = [a |-> "ProbeAfterClose", c |-> c, u |-> u]
  /\ UNCHANGED state /\ out' = {}          \* no success, nothing created

Rems == {alloc[c].rem : c \in {x \in Clients : alloc[x].live}}
        \cup UNION {{perm[c][i] : i \in {j \in PeerIPs : perm[c][j] > 0}} : c \in Clients}
        \cup {conn[id].rem : id \in {x \in Ids : conn[x].open /\ ~conn[x].bound}}
MinRem == CHOOSE m \in Rems : \A r \in Rems : m <= r
Jumps  == IF Rems = {} THEN {} ELSE {1, MinRem - 1, MinRem} \ {0}
Advance(d) ==
  /\ Rems # {} /\ d >= 1 /\ d <= MinRem
  /\ last' = [a |-> "Advance", d |-> d]
  /\ LET dead == {c \in Clients : alloc[c].live /\ alloc[c].rem = d}
         gone == {id \in Ids : conn[id].open /\ ((~Orphan(id) /\ conn[id].owner \in dead) \/ (~conn[id].bound /\ conn[id].rem = d))}
     IN /\ alloc' = [c \in Clients |-> IF c \in dead THEN (IF Dialing(c) THEN [live |-> FALSE, dial |-> alloc[c].dial] ELSE NoAlloc)
                                      ELSE IF alloc[c].live THEN [alloc[c] EXCEPT !.rem = @ - d] ELSE alloc[c]]
        /\ perm'  = [c \in Clients |-> [i \in PeerIPs |-> IF c \in dead \/ perm[c][i] <= d THEN 0 ELSE perm[c][i] - d]]
        /\ conn'  = [id \in Ids |-> IF id \in gone THEN NoConn
                                   ELSE IF conn[id].open /\ ~conn[id].bound THEN [conn[id] EXCEPT !.rem = @ - d]
                                   ELSE conn[id]]
        /\ UNCHANGED nextId
        /\ out' = Gone(gone)

LiveNext ==
  \/ \E c \in Clients, u \in Users : Allocate(c, u)
  \/ \E c \in Clients, u \in Users, i \in PeerIPs : CreatePermission(c, u, i)
  \/ \E c \in Clients, u \in Users, p \in Peers : Connect(c, u, p)
  \/ \E c \in Clients, p \in Peers : PeerConnect(c, p)
  \/ \E c \in Clients, u \in Users, p \in Peers : ConnectSlow(c, u, p)
  \/ \E c \in Clients : DialDone(c)
  \/ \E u \in Users, id \in Ids \cup {0} : ConnectionBind(u, id)
  \/ \E id \in Ids, pay \in {"x", "y"} : DataC2P(id, pay) \/ DataP2C(id, pay)
  \/ \E id \in Ids : Duplex(id)
  \/ \E id \in Ids, side \in {"client", "peer"} : CloseData(id, side)
  \/ \E c \in Clients : ControlClose(c)
  \/ \E d \in Jumps : Advance(d)
Next ==
  \/ ServerClose
  \/ \E c \in Clients, u \in Users : ProbeAfterClose(c, u)
  \/ (~Down /\ LiveNext)
Spec == Init /\ [][Next]_vars
View == state
DepthBound == TLCGet("level") <= MaxDepth

(* C16 *)
TypeOK == \A id \in Ids : (conn[id].open /\ ~Orphan(id)) => /\ alloc[conn[id].owner].live
                                           /\ (conn[id].bound <=> conn[id].rem = 0)
                                           /\ id < nextId
C15_NothingAfterClose == Down => \A id \in Ids : ~conn[id].open
\* an id names at most one peer connection, ever (ids are never reused: nextId only grows)
C16_UniqueIds == [][nextId' >= nextId /\ \A id \in Ids : (conn[id].open /\ conn'[id].open) =>
                       (conn'[id].owner = conn[id].owner /\ conn'[id].peer = conn[id].peer)]_vars
\* bound flips at most once, and only by a ConnectionBind of the owner's user
C16_BindOnce ==
  [][\A id \in Ids : (conn[id].open /\ conn'[id].open /\ conn[id].bound # conn'[id].bound) =>
        /\ ~conn[id].bound /\ conn'[id].bound
        /\ last'.a = "ConnectionBind" /\ last'.id = id /\ last'.u = alloc[conn[id].owner].user
        /\ conn[id].rem > 0]_vars
\* inbound connections only from peers with a live permission
C16_InboundPermitted ==
  [][\A o \in out' : o.k = "attempt" => perm[o.to][o.peer[1]] > 0 /\ Live(o.to)]_vars
\* a duplicate Connect is answered 446 and changes nothing
C16_Dup446 ==
  [][(last'.a = "Connect" /\ Owns(last'.c, last'.u) /\ <<last'.c, last'.p[1]>> \notin Denied /\ Dup(last'.c, last'.p))
       => UNCHANGED state /\ out' = {Resp(last'.c, "Connect", "err", 446)}]_vars
\* what the peer sent before the bind is delivered, in order, right after it
C16_HeldDelivered ==
  [][(last'.a = "ConnectionBind" /\ \E o \in out' : o.k = "bindresp" /\ o.cls = "ok") =>
        \A j \in 1..Len(conn[last'.id].held) :
           [k |-> "todata", id |-> last'.id, pay |-> conn[last'.id].held[j], seq |-> j] \in out']_vars

MCDenied    == {<<"c1", "B">>}
MCListening == {<<"A", 1>>, <<"A", 2>>, <<"B", 1>>}
MCNoListening == {}   \* (slice tcpC: nobody listens, so every connection there is has come in from a peer)
ASSUME PrintT("META " \o ToJson([Sys |-> "tcp", Denied |-> Denied, Clients |-> Clients, Users |-> Users,
                                 PeerPorts |-> PeerPorts, DefaultLife |-> DefaultLife, PermTO |-> PermTO,
                                 Fam |-> [i \in PeerIPs |-> 4],
                                 Extra |-> [BindTO |-> ToString(BindTO), Listening |-> ToString(Listening)]]))
EmitEdge ==
  PrintT("EDGE " \o ToJson([s |-> <<alloc, perm, conn, nextId>>, a |-> last', o |-> out',
                            t |-> <<alloc', perm', conn', nextId'>>]))
=============================================================================
