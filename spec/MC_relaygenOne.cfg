SPECIFICATION Spec
VIEW View
CHECK_DEADLOCK FALSE
CONSTANTS
  MinPort = 61107
  MaxPort = 61107
  MaxRetries = 3
  Kinds = {"range"}
  Protos = {"udp", "tcp"}
  Fams = {4}
  ReqPorts = {61107}
  Classes = {"lo", "hi", "mid", "hit"}
PROPERTIES C20_NeverShared C20_InRange C20_Requested C20_FailOnlyWhenFull
