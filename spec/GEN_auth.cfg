\* Engine A generation: auth family
SPECIFICATION AuthSpec
VIEW View
CONSTANTS
  Clients = {"c1"}
  Users = {"u1", "u2"}
  PeerIPs = {"A", "B"}
  PeerPorts = {1, 2}
  Fam <- MCFam
  ListenFam <- MCListenFam
  Strict = FALSE
  ReqFams = {0}
  ChanNums = {16384}
  LifeReqs <- MCLifeAbsent0
  Txids = {"t1"}
  Pays = {"p"}
  Lens <- MCLenSmall
  InboundMTU = 1600
  PermSeqs <- MCPermSeqsA
  DefaultLife = 50
  PermTO = 20
  ChanTO = 30
  MaxLife = 3600
  Denied <- MCNoDenied
  Vetoable = {}
  Toks = {"none"}
  ResvTO = 30
  QuotaDenied = {}
  HasAuth = TRUE
  CredKinds <- MCCredKinds
  Methods <- MCMethods
  MaxDepth = 4
CONSTRAINT DepthBound
ACTION_CONSTRAINT EmitEdge
