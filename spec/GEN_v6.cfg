\* GEN_v6 -- generated by mkcfg.py; IPv6 listener/client/peers and REQUESTED-ADDRESS-FAMILY, vetoed IPv6 peer
SPECIFICATION Spec
VIEW View
CONSTANTS
  Clients = {"c1", "c6"}
  Users = {"u1"}
  PeerIPs = {"A", "X", "Y"}
  PeerPorts = {1}
  Fam <- MCFam
  ListenFam <- MCListenFam
  Strict = FALSE
  ReqFams = {0, 4, 6, 9}
  ChanNums = {16384}
  LifeReqs <- MCLifeAbsent0
  Txids = {"t1"}
  Pays = {"p"}
  Lens <- MCLenSmall
  InboundMTU = 1600
  PermSeqs <- MCPermSeqs1
  DefaultLife = 5
  PermTO = 2
  ChanTO = 3
  MaxLife = 3600
  Denied <- MCDeniedV6
  Vetoable = {}
  Toks = {"none"}
  ResvTO = 30
  QuotaDenied = {}
  MaxDepth = 4
CONSTRAINT DepthBound
ACTION_CONSTRAINT EmitEdge
