SPECIFICATION Spec
VIEW View
CHECK_DEADLOCK FALSE
CONSTANTS
  Txns = {"t1", "t2"}
  RTO = 200
  MaxIvl = 1600
  MaxSend = 7
  FineTime = TRUE
  SlowWrites = TRUE
  SlowRtx = "no"
  IgnoreToo = TRUE
  FailAts = {0, 1, 2, 7}
  MaxDepth = 9
CONSTRAINT DepthBound
INVARIANTS C12_Schedule C12_NothingLeft
PROPERTIES C12_ExactlyOnce C12_OwnResponse
