SPECIFICATION Spec
VIEW View
CONSTANTS
  Kinds = {"lt", "rest"}
  Users = {"alice", "tenant:alice", "", "bob%40example.org"}
  Durs <- MCDurs
  Ticks = {3, 10}
  Muts <- MCMuts
  MaxNow = 50
PROPERTIES C17_Iff
CHECK_DEADLOCK FALSE
