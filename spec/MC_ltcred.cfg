SPECIFICATION Spec
VIEW View
CONSTANTS
  Kinds = {"lt", "rest"}
  Users = {"alice", "tenant:alice", ""}
  Durs <- MCDurs
  Ticks = {1}
  Muts <- MCMuts
  MaxNow = 5
PROPERTIES C17_Iff
CHECK_DEADLOCK FALSE
