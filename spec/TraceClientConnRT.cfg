\* as TraceClientConn.cfg without the global invariants: with a thousand peers per execution they cost O(n^2) per state,
\* and the guards of CBReq / ChanData / SendInd / Read state the same facts incrementally
SPECIFICATION TSpec
CONSTANTS
  QueueCap = 1024
  TraceFile = "trace.ndjson"
CONSTRAINT Progress
POSTCONDITION Accepted
CHECK_DEADLOCK FALSE
