SPECIFICATION Spec
VIEW View
CHECK_DEADLOCK FALSE
CONSTANTS
  Streams <- MCStreams
  Mode = "framer"
INVARIANTS C10_Prefix C10_Prompt C10_Progress
