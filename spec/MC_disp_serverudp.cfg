SPECIFICATION Spec
VIEW View
CHECK_DEADLOCK FALSE
CONSTANTS
  Mode = "server-udp"
  Shapes <- MCServerUDP
PROPERTIES C09_Total C09_ClosedOnlyStreams
