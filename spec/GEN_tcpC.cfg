\* inbound-only histories: nobody listens, one peer IP with two ports, permissions that lapse between two inbound connections
SPECIFICATION Spec
VIEW View
CHECK_DEADLOCK FALSE
CONSTANTS
  Clients = {"c1"}
  Users = {"u1"}
  PeerIPs = {"A"}
  PeerPorts = {1, 2}
  Denied <- MCNoListening
  Listening <- MCNoListening
  MaxConns = 3
  DefaultLife = 100
  PermTO = 40
  BindTO = 30
  SlowDial = FALSE
  MaxDepth = 7
CONSTRAINT DepthBound

ACTION_CONSTRAINT EmitEdge
