SPECIFICATION TSpec
CONSTANTS
  TraceFile = "trace.ndjson"
CONSTRAINT Progress
POSTCONDITION Accepted
CHECK_DEADLOCK FALSE
