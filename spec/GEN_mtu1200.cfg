\* GEN_mtu1200 -- generated by mkcfg.py; as GEN_mtu with InboundMTU 1200
SPECIFICATION Spec
VIEW View
CONSTANTS
  Clients = {"c1"}
  Users = {"u1"}
  PeerIPs = {"A"}
  PeerPorts = {1}
  Fam <- MCFam
  ListenFam <- MCListenFam
  Strict = FALSE
  ReqFams = {0}
  ChanNums = {16384}
  LifeReqs <- MCLifeAbsent
  Txids = {"t1"}
  Pays = {"p"}
  Lens <- MCLensMTU1200
  InboundMTU = 1200
  PermSeqs <- MCPermSeqs1
  DefaultLife = 5
  PermTO = 2
  ChanTO = 3
  MaxLife = 3600
  Denied <- MCNoDenied
  Vetoable = {}
  Toks = {"none"}
  ResvTO = 30
  QuotaDenied = {}
  MaxDepth = 4
CONSTRAINT DepthBound
ACTION_CONSTRAINT EmitEdge
