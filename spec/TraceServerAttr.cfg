\* attribution runs (one linearisation reaching the end is enough): trace validation of concurrent executions of the real server against TurnServer.tla (real timeouts: 600 / 300 / 600 s)
SPECIFICATION TSpec
CONSTANTS
  TraceFile = "trace.ndjson"
  Relax = {}
  RelaxFrom = 1
  Clients = {"c1", "c2", "c3", "c6", "s1", "s2"}
  Users = {"u1", "u2"}
  PeerIPs = {"A", "B", "X"}
  PeerPorts = {1, 2}
  Fam <- TSFam
  ListenFam <- TSListenFam
  Strict = FALSE
  ReqFams = {0, 4, 6}
  ChanNums = {16384, 16385, 16386, 1}
  LifeReqs <- TSLifeReqs
  Txids = {"t"}
  Pays = {"p"}
  Lens <- TSLens
  InboundMTU = 1600
  PermSeqs <- TSPermSeqs
  DefaultLife = 600
  PermTO = 300
  ChanTO = 600
  MaxLife = 3600
  Denied <- TSNone
  Vetoable = {}
  Toks = {"none"}
  ResvTO = 30
  QuotaDenied = {}
INVARIANT NotDone
CHECK_DEADLOCK FALSE
