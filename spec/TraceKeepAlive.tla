-------------------------- MODULE TraceKeepAlive --------------------------
(***************************************************************************)
(* Engine B for C14: executions of the real turn.Client against the real    *)
(* turn.Server (harness/keepalive_trace_test.go: > 2 virtual hours, lossy   *)
(* transactions, idle and chatty phases) are replayed against the           *)
(* observable contract of KeepAlive.tla:                                    *)
(*   while the relayed socket is open every probe datagram, in either       *)
(*   direction, is delivered, and the server never deletes the allocation;  *)
(*   after Close the allocation is gone as soon as one transmission of the  *)
(*   Refresh(0) can have arrived (at once on a loss-free network, within    *)
(*   one transaction otherwise).                                            *)
(* The lapse of a single server-side entry (perm-/chan- events) is not a    *)
(* violation by itself: the claim of C14 is the flow.                       *)
(***************************************************************************)
EXTENDS Integers, Sequences, TLC, Json

CONSTANT TraceFile
Tr == ndJsonDeserialize(TraceFile)

VARIABLES l, open, lost
tvars == <<l, open, lost>>
Line == Tr[l]
IsEvent(e) == l <= Len(Tr) /\ Line.e = e /\ l' = l + 1

TInit == l = 1 /\ open = TRUE /\ lost = 0

TReset   == IsEvent("Reset") /\ open' = TRUE /\ lost' = 0
\* a probe sent while the socket is open comes out at the other side
TProbe   == (IsEvent("ProbeOut") \/ IsEvent("ProbeIn")) /\ (open => Line.delivered) /\ UNCHANGED <<open, lost>>
\* lifecycle callbacks of the server: the allocation is never deleted under a live client
TEv      == IsEvent("Ev") /\ (Line.kind = "alloc-" => ~open) /\ UNCHANGED <<open, lost>>
TClose   == IsEvent("Close") /\ open' = FALSE /\ UNCHANGED lost
\* Close releases the allocation: at once when nothing is lost, within a transaction otherwise
TAfter   == IsEvent("AfterClose") /\ ~open
            /\ (Line.lossless => Line.count0 = 0)
            /\ Line.count8 = 0
            /\ UNCHANGED <<open, lost>>
\* the same client allocates again (KeepAlive!Reopen): from here on the new allocation must stay
TReopen  == IsEvent("Reopen") /\ ~open /\ open' = TRUE /\ UNCHANGED lost
TNote    == IsEvent("Note") /\ UNCHANGED <<open, lost>>
TEnd     == IsEvent("End") /\ UNCHANGED <<open, lost>>
TNext == TReset \/ TProbe \/ TEv \/ TClose \/ TAfter \/ TReopen \/ TNote \/ TEnd
TSpec == TInit /\ [][TNext]_tvars

Progress == TLCSet(1, IF l > TLCGet(1) THEN l ELSE TLCGet(1))
ASSUME TLCSet(1, 0)
Accepted ==
  IF TLCGet(1) = Len(Tr) + 1 THEN PrintT("TRACE ACCEPTED " \o ToString(Len(Tr)))
  ELSE /\ PrintT("TRACE REJECTED at line " \o ToString(TLCGet(1)) \o " of " \o ToString(Len(Tr)))
       /\ PrintT(Tr[TLCGet(1)])
       /\ FALSE
=============================================================================
