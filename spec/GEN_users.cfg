\* GEN_users -- generated by mkcfg.py; two users whose names differ in case only, on one 5-tuple: ownership checks on every method; U1 is over its allocation quota
SPECIFICATION Spec
VIEW View
CONSTANTS
  Clients = {"c1"}
  Users = {"u1", "U1"}
  PeerIPs = {"A"}
  PeerPorts = {1}
  Fam <- MCFam
  ListenFam <- MCListenFam
  Strict = FALSE
  ReqFams = {0}
  ChanNums = {16384}
  LifeReqs <- MCLifeAbsent0
  Txids = {"t1", "t2"}
  Pays = {"p"}
  Lens <- MCLenSmall
  InboundMTU = 1600
  PermSeqs <- MCPermSeqs1
  DefaultLife = 5
  PermTO = 2
  ChanTO = 3
  MaxLife = 3600
  Denied <- MCNoDenied
  Vetoable = {}
  Toks = {"none"}
  ResvTO = 30
  QuotaDenied = {"U1"}
  MaxDepth = 5
CONSTRAINT DepthBound
ACTION_CONSTRAINT EmitEdge
