---------------------------- MODULE MC_clientconn ----------------------------
(* A small environment driving ClientConn.tla's actions so that TLC checks its      *)
(* invariants over all orders of requests, answers, writes and inbound data.        *)
EXTENDS ClientConn
CONSTANTS MaxDepth
PeersMC == {[ip |-> "A", port |-> 1], [ip |-> "A", port |-> 2], [ip |-> "B", port |-> 1]}
NumsMC  == {16384, 16385, 16383}
TxMC    == {"x1", "x2", "x3"}
PayMC   == {"w1", "w2"}
\* the client's allocator: the number for a new peer is one not yet assigned
Fresh(p, n) == (p \in Dom(assigned) /\ assigned[p] = n) \/ (p \notin Dom(assigned) /\ \A q \in Dom(assigned) : assigned[q] # n)
MCNext ==
  \/ \E w \in PayMC, p \in PeersMC : WriteCall(w, p, w)
  \/ \E tx \in TxMC, p \in PeersMC : CPReq(tx, {p.ip})
  \/ \E tx \in TxMC, r \in {"ok", "403", "438"} : CPResp(tx, r)
  \/ \E tx \in TxMC, n \in NumsMC, p \in PeersMC : Fresh(p, n) /\ CBReq(tx, n, p)
  \/ \E tx \in TxMC, r \in {"ok", "400", "438"} : CBResp(tx, r)
  \/ \E w \in PayMC, p \in PeersMC : SendInd(w, p, w)
  \/ \E w \in PayMC, n \in NumsMC : ChanData(w, n, w)
  \/ \E w \in PayMC, ok \in BOOLEAN : WriteRet(w, ok)
  \/ \E p \in PeersMC, pay \in {"r1"} : InjectInd(p, pay)
  \/ \E n \in NumsMC, pay \in {"r2"} : InjectChan(n, pay)
  \/ \E pay \in {"r1", "r2"}, p \in PeersMC : Read(pay, p)
  \/ Close
MCSpec == CInit /\ [][MCNext]_cvars
DepthBound == TLCGet("level") <= MaxDepth
=============================================================================
