SPECIFICATION Spec
VIEW View
CHECK_DEADLOCK FALSE
CONSTANTS
  Clients = {"c1", "c2"}
  Users = {"u1", "u2"}
  PeerIPs = {"A", "B"}
  PeerPorts = {1, 2}
  Denied <- MCDenied
  Listening <- MCListening
  MaxConns = 3
  DefaultLife = 100
  PermTO = 40
  BindTO = 30
  SlowDial = TRUE
  MaxDepth = 6
CONSTRAINT DepthBound
INVARIANTS TypeOK C15_NothingAfterClose
PROPERTIES C16_UniqueIds C16_BindOnce C16_InboundPermitted C16_Dup446 C16_HeldDelivered
