\* GEN_time -- generated by mkcfg.py; allocation lifetime classes, refresh (also with a REQUESTED-ADDRESS-FAMILY), delete, expiry
SPECIFICATION Spec
VIEW View
CONSTANTS
  Clients = {"c1"}
  Users = {"u1"}
  PeerIPs = {"A"}
  PeerPorts = {1}
  Fam <- MCFam
  ListenFam <- MCListenFam
  Strict = FALSE
  ReqFams = {0, 6}
  ChanNums = {16384}
  LifeReqs <- MCLifeTime
  Txids = {"t1", "t2"}
  Pays = {"p"}
  Lens <- MCLenSmall
  InboundMTU = 1600
  PermSeqs <- MCPermSeqs1
  DefaultLife = 5
  PermTO = 2
  ChanTO = 3
  MaxLife = 3600
  Denied <- MCNoDenied
  Vetoable = {}
  Toks = {"none"}
  ResvTO = 30
  QuotaDenied = {}
  MaxDepth = 5
CONSTRAINT DepthBound
ACTION_CONSTRAINT EmitEdge
