\* GEN_veto -- generated by mkcfg.py; the operator's verdict about (c1, A) changes at run time (a block list behind the PermissionHandler)
SPECIFICATION Spec
VIEW View
CONSTANTS
  Clients = {"c1"}
  Users = {"u1"}
  PeerIPs = {"A", "B"}
  PeerPorts = {1}
  Fam <- MCFam
  ListenFam <- MCListenFam
  Strict = FALSE
  ReqFams = {0}
  ChanNums = {16384}
  LifeReqs <- MCLifeAbsent
  Txids = {"t1"}
  Pays = {"p"}
  Lens <- MCLenSmall
  InboundMTU = 1600
  PermSeqs <- MCPermSeqs1
  DefaultLife = 5
  PermTO = 2
  ChanTO = 3
  MaxLife = 3600
  Denied <- MCNoDenied
  Vetoable <- MCVetoable
  Toks = {"none"}
  ResvTO = 30
  QuotaDenied = {}
  MaxDepth = 6
CONSTRAINT DepthBound
ACTION_CONSTRAINT EmitEdge
